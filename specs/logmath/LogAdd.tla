------------------------------- MODULE LogAdd -------------------------------
(***************************************************************************)
(* Layer A for C19: addition of probabilities kept as integer logarithms.  *)
(*                                                                         *)
(* A log-probability is an integer x >= Z (Z = "log-zero", the smallest    *)
(* value of the domain); it stands for the probability B^x.  The sum of    *)
(* B^x and B^y is B^(max + L(d)), d = |x - y|, L(d) = log_B(1 + B^-d).     *)
(* The add table T holds L(d) rounded to an integer for d = 0..Len(T)-1;   *)
(* beyond the table L(d) rounds to 0.  T and Z are parameters of every     *)
(* operator (not CONSTANTS) so that one definition serves the exhaustive   *)
(* check over all small tables, the refinement check of LogAddImpl and the *)
(* validation of traces of real tables (LogTrace).                         *)
(*                                                                         *)
(* Real numbers do not occur: wherever the property compares with the real *)
(* logarithm, the comparison is stated against integer brackets (floor /   *)
(* ceiling of the exact value) that are inputs.                            *)
(***************************************************************************)
EXTENDS Integers, Sequences

Max(a, b) == IF a >= b THEN a ELSE b
Abs(a) == IF a >= 0 THEN a ELSE -a

\* T[d+1] is the entry for difference d; past the end the entry is 0
Tab(T, d) == IF d < Len(T) THEN T[d + 1] ELSE 0

\* THE OPERATION: log-zero is the identity, otherwise the larger argument plus the table entry
Add(T, Z, x, y) ==
    IF x <= Z THEN y
    ELSE IF y <= Z THEN x
    ELSE Max(x, y) + Tab(T, Abs(x - y))

---------------------------------------------------------------------------
(* Table axioms *)
NonIncreasing(T) == \A i \in 1..(Len(T) - 1) : T[i] >= T[i + 1]
\* L has slope between -1/2 and 0, so rounded neighbours differ by at most 1 - also where the table
\* ends and the implicit zeros begin.  (TLC found this axiom: without it <<2>> gives -7 + -7 = -5 but
\* -7 + -6 = -6, i.e. raising the larger argument lowers the sum.)
Gentle(T) == \A i \in 1..Len(T) : T[i] - Tab(T, i) <= 1
IsTable(T) == /\ Len(T) >= 1
              /\ \A i \in DOMAIN T : T[i] \in Nat
              /\ NonIncreasing(T)
              /\ Gentle(T)

\* lo, hi: for d = 0..Len(lo)-1 (covering the table and some way beyond it) the smallest / largest
\* integer within half a unit (plus the rounding allowance) of the exact L(d).  "Accurate" is the
\* property's "to within half a unit plus rounding"; because L decreases, an entry beyond the
\* table being allowed to be 0 at d = Len(T) makes 0 accurate for every larger d as well.
AccurateAt(T, lo, hi, d) == lo[d + 1] <= Tab(T, d) /\ Tab(T, d) <= hi[d + 1]
Accurate(T, lo, hi) == /\ Len(lo) = Len(hi) /\ Len(lo) > Len(T)
                       /\ \A d \in 0..(Len(lo) - 1) : AccurateAt(T, lo, hi, d)

---------------------------------------------------------------------------
(* The property, clause by clause, for arguments of the domain (x >= Z, y >= Z); r is the value *)
(* returned for (x, y), q the value returned for (y, x).                                        *)
InDomain(Z, x, y) == x >= Z /\ y >= Z

Symmetric(r, q) == r = q
\* never smaller than the larger argument, nor larger than it by more than log 2 (= T[1])
Bounded(T, x, y, r) == Max(x, y) <= r /\ r <= Max(x, y) + T[1]
\* log-zero is the identity
IdentityL(Z, y, r) == r = y       \* r returned for (Z, y)
IdentityR(Z, x, r) == r = x       \* r returned for (x, Z)
\* the integer log of the sum to within half a unit plus rounding, given the brackets of L(|x-y|);
\* past the last bracket L is positive and smaller still, so the bracket is 0..hi[last]
LoAt(lo, d) == IF d < Len(lo) THEN lo[d + 1] ELSE 0
HiAt(hi, d) == IF d < Len(hi) THEN hi[d + 1] ELSE hi[Len(hi)]
AccurateSum(Z, lo, hi, x, y, r) ==
    (x > Z /\ y > Z) =>
        /\ Max(x, y) + LoAt(lo, Abs(x - y)) <= r
        /\ r <= Max(x, y) + HiAt(hi, Abs(x - y))
\* monotone: a larger argument never gives a smaller sum (r for (x,y), r2 for (x,y2), y <= y2)
Monotone(y, y2, r, r2) == (y <= y2) => (r <= r2)

\* Consequences of the table axioms (checked exhaustively by TLC over all small tables, see MC_LogAdd,
\* and proved with TLAPS for arbitrary tables and integers in proofs/LogAddProofs.tla)
AddSymmetric(T, Z, x, y) == Symmetric(Add(T, Z, x, y), Add(T, Z, y, x))
AddBounded(T, Z, x, y) == Bounded(T, x, y, Add(T, Z, x, y))
AddIdentity(T, Z, x) == IdentityL(Z, x, Add(T, Z, Z, x)) /\ IdentityR(Z, x, Add(T, Z, x, Z))
AddMonotone(T, Z, x, y, y2) == /\ Monotone(y, y2, Add(T, Z, x, y), Add(T, Z, x, y2))
                               /\ Monotone(y, y2, Add(T, Z, y, x), Add(T, Z, y2, x))
AddAccurate(T, Z, lo, hi, x, y) == AccurateSum(Z, lo, hi, x, y, Add(T, Z, x, y))

---------------------------------------------------------------------------
(* Conversion probability -> integer log -> probability.  v is the integer log returned for p;    *)
(* flo / cei are floor / ceiling of the exact log_B(p) (a rounding allowance already applied).    *)
(* Going back gives B^v, so the round trip does not increase p iff v <= log_B(p) iff v <= flo,    *)
(* and loses at most one unit (one factor B) iff v >= log_B(p) - 1 iff v >= cei - 1.              *)
NeverIncreases(v, flo) == v <= flo
LosesAtMostOne(v, cei) == v >= cei - 1
\* logmath_exp(v) is B^v: elo / ehi bracket log_B of what it returned
ExpExact(v, elo, ehi) == elo <= v /\ v <= ehi

---------------------------------------------------------------------------
(* A small state machine so that TLC can enumerate: a table is chosen once, then argument pairs. *)
CONSTANTS Tables,   \* the set of tables to range over
          Zero,     \* log-zero of the instance
          Args      \* argument values to range over
VARIABLES tab, ax, ay, ar

vars == <<tab, ax, ay, ar>>

Init == /\ tab \in Tables
        /\ ax = Zero /\ ay = Zero
        /\ ar = Add(tab, Zero, Zero, Zero)

Call(a, b) == /\ ax' = a /\ ay' = b
              /\ ar' = Add(tab, Zero, a, b)
              /\ UNCHANGED tab

Next == \E a, b \in Args : Call(a, b)

Spec == Init /\ [][Next]_vars

TypeOK == tab \in Tables /\ ax \in Int /\ ay \in Int /\ ar \in Int
InvSymmetric == InDomain(Zero, ax, ay) => AddSymmetric(tab, Zero, ax, ay)
InvBounded == InDomain(Zero, ax, ay) => Bounded(tab, ax, ay, ar)
InvIdentity == ax >= Zero => AddIdentity(tab, Zero, ax)
InvMonotone == InDomain(Zero, ax, ay) =>
                 \A y2 \in Args : (y2 >= Zero) => AddMonotone(tab, Zero, ax, ay, y2)
\* exact rounding of a table (lo = hi = T, extended by zeros) gives the exact rounded sum
InvAccurate == LET ext == tab \o <<0, 0>>
               IN InDomain(Zero, ax, ay) => AccurateSum(Zero, ext, ext, ax, ay, ar)
=============================================================================
