SPECIFICATION TSpec
CONSTANTS
  TM = 10
  TS = 9
  TE = 1
  Cfgs <- TourCfgs
  Trails <- TourTrails
  MaxFrames = 1000
INVARIANT AFifoOK
ACTION_CONSTRAINT DumpEdge
VIEW TourView
CHECK_DEADLOCK FALSE
