SPECIFICATION HSpec
CONSTANTS
  M = 5
  F = 2
  Cfgs <- MCCfgs
  Trails <- MCTrails
  MaxFrames = 11
INVARIANTS Excerpt InOrder NoGap StartRule EndRule EndStreamRule NoLoss AFifoOK
CHECK_DEADLOCK FALSE
