SPECIFICATION TSpec
CONSTANTS
  TM = 6
  TS = 3
  TE = 3
  Cfgs <- TourCfgs
  Trails <- TourTrails
  MaxFrames = 1000
INVARIANT AFifoOK
ACTION_CONSTRAINT DumpEdge
VIEW TourView
CHECK_DEADLOCK FALSE
