SPECIFICATION Spec
CONSTANTS
  M = 5
  F = 2
  MaxFrames = 16
  CountFix = FALSE
INVARIANTS NoOob

CHECK_DEADLOCK FALSE
