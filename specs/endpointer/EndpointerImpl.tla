--------------------------- MODULE EndpointerImpl ---------------------------
(***************************************************************************)
(* Layer B for C15: src/ps_endpointer.c transcribed, index by index.       *)
(*                                                                         *)
(*   buf[0..M-1]   the frame slots of ep->buf; a slot holds the id of the  *)
(*                 frame copied into it (0 = still calloc zeros, TRAIL =   *)
(*                 the trailing partial frame written by end_stream)       *)
(*   isSp[0..M-1]  ep->is_speech                                           *)
(*   pos, n        ring head and occupancy                                 *)
(*   qstart, ts    ep->qstart_time and ep->timestamp counted in additions  *)
(*                 of frame_length (the C code adds the same double each   *)
(*                 time); tsx = samples added to timestamp by end_stream   *)
(*   insp, sst, sen, senx   in_speech, speech_start, speech_end (frames +  *)
(*                 extra samples)                                          *)
(*   oob           an array access left 0..M-1.  The step in which that    *)
(*                 happens changes nothing else and nothing happens after  *)
(*                 it (the process is gone), so that the refinement below  *)
(*                 says: every behaviour refines Layer A up to the point   *)
(*                 where it leaves the ring, and NoOob says it never does. *)
(*                                                                         *)
(* CountFix = FALSE transcribes ep_speech_count as it stands in the tree   *)
(* this check was written against; CountFix = TRUE is the same loop with   *)
(* the index wrapped before it is used (the proposed repair).  Which of    *)
(* the two the real code behaves like is decided by Layer C, not here.     *)
(***************************************************************************)
EXTENDS Integers, Sequences, FiniteSets, TLC

CONSTANTS M,          \* ep->maxlen
          F,          \* frame size in samples
          MaxFrames,  \* bound on stream length
          CountFix    \* BOOLEAN, see above

VARIABLES buf, isSp, pos, n, qstart, ts, tsx, insp, sst, sen, senx, oob,
          S, E,       \* ep->start_frames, ep->end_frames (fixed in the initial state)
          nst, nen,   \* ghost: segments opened / closed
          ended,      \* ghost: end_stream was called
          obs         \* what the caller saw from the last call

vars == <<buf, isSp, pos, n, qstart, ts, tsx, insp, sst, sen, senx, oob, S, E, nst, nen, ended, obs>>

TRAIL == -1
Slots == 0..M-1
InRing(i) == i >= 0 /\ i <= M - 1

L == INSTANCE EndpointerAbs WITH Cfgs <- {}, Trails <- {}, st <- 0, out <- 0, cf <- 0
Pairs == L!AdmissiblePairs(M)
TrailLens == {0, 1, F}

Init == /\ buf = [i \in Slots |-> 0] /\ isSp = [i \in Slots |-> 0]
        /\ pos = 0 /\ n = 0 /\ qstart = 0 /\ ts = 0 /\ tsx = 0
        /\ insp = FALSE /\ sst = 0 /\ sen = 0 /\ senx = 0 /\ oob = FALSE
        /\ \E p \in Pairs : S = p[1] /\ E = p[2]
        /\ nst = 0 /\ nen = 0 /\ ended = FALSE
        /\ obs = [op |-> "new"]

-----------------------------------------------------------------------------
(* ep_push: returns the new ring [buf, isSp, pos, n, qstart, bad] *)
Push(r, d, id) ==
    LET i == (r.pos + r.n) % M
    IN [buf |-> [r.buf EXCEPT ![i] = id], isSp |-> [r.isSp EXCEPT ![i] = d],
        pos |-> IF r.n = M THEN (r.pos + 1) % M ELSE r.pos,
        n |-> IF r.n = M THEN r.n ELSE r.n + 1,
        qstart |-> IF r.n = M THEN r.qstart + 1 ELSE r.qstart,
        bad |-> r.bad \/ ~InRing(i)]

(* ep_pop on a non-empty ring: the slot handed out, its flag, the new ring *)
Pop(r) == [slot |-> r.pos, flag |-> r.isSp[r.pos],
           ring |-> [r EXCEPT !.pos = (r.pos + 1) % M, !.n = r.n - 1, !.qstart = r.qstart + 1,
                              !.bad = r.bad \/ ~InRing(r.pos)]]

(* ep_speech_count.  The partial-queue branch:                                     *)
(*     int i = ep->pos, end = (ep->pos + ep->n) % ep->maxlen;                       *)
(*     count = ep->is_speech[i++];                                                  *)
(*     while (i != end) { count += ep->is_speech[i++]; i = i % ep->maxlen; }        *)
(* reads is_speech[i] BEFORE wrapping i, so after the first read i may equal M.     *)
RECURSIVE CountLoop(_, _, _, _)
CountLoop(arr, i, end, acc) ==
    IF i = end THEN acc
    ELSE CountLoop(arr, (i + 1) % M, end,
                   [count |-> acc.count + (IF InRing(i) THEN arr[i] ELSE 0), bad |-> acc.bad \/ ~InRing(i)])
RECURSIVE SumTo(_, _)
SumTo(arr, i) == IF i < 0 THEN 0 ELSE arr[i] + SumTo(arr, i - 1)
SpeechCount(r) ==
    IF r.n = 0 THEN [count |-> 0, bad |-> FALSE]
    ELSE IF r.n = M THEN [count |-> SumTo(r.isSp, M - 1), bad |-> FALSE]
    ELSE LET end == (r.pos + r.n) % M
             first == [count |-> r.isSp[r.pos], bad |-> FALSE]
             i1 == IF CountFix THEN (r.pos + 1) % M ELSE r.pos + 1
         IN CountLoop(r.isSp, i1, end, first)

(* ep_linearize: slot j of the result is old slot (j + pos) % M (three block copies) *)
Linearize(r) == IF r.pos = 0 THEN r
                ELSE [r EXCEPT !.buf = [j \in Slots |-> r.buf[(j + r.pos) % M]],
                               !.isSp = [j \in Slots |-> r.isSp[(j + r.pos) % M]],
                               !.pos = 0]

Ring == [buf |-> buf, isSp |-> isSp, pos |-> pos, n |-> n, qstart |-> qstart, bad |-> FALSE]
SetRing(r) == buf' = r.buf /\ isSp' = r.isSp /\ pos' = r.pos /\ n' = r.n /\ qstart' = r.qstart

Crash == /\ oob' = TRUE
         /\ UNCHANGED <<buf, isSp, pos, n, qstart, ts, tsx, insp, sst, sen, senx, S, E, nst, nen, ended, obs>>

SsObs(nstart, s) == IF nstart > 0 THEN s * F ELSE 0

(* endpointer_process *)
Process(d) ==
    /\ ~oob /\ ~ended /\ ts < MaxFrames
    /\ LET id == ts + 1
           r1 == Push(Ring, d, id)
           c == SpeechCount(r1)
           closes == insp /\ c.count < E
           opens == ~insp /\ c.count > S
           returns == insp \/ opens
           p == Pop(r1)                       \* only used when returns (then r1.n >= 1)
           r2 == IF returns THEN p.ring ELSE r1
       IN IF r1.bad \/ c.bad \/ (returns /\ (r1.n = 0 \/ p.ring.bad)) THEN Crash
          ELSE /\ SetRing(r2)
               /\ ts' = ts + 1 /\ tsx' = tsx
               /\ insp' = ((insp /\ ~closes) \/ opens)
               /\ sst' = IF opens THEN r1.qstart ELSE sst
               /\ sen' = IF closes THEN r2.qstart ELSE IF opens THEN 0 ELSE sen
               /\ senx' = IF closes \/ opens THEN 0 ELSE senx
               /\ nst' = nst + (IF opens THEN 1 ELSE 0) /\ nen' = nen + (IF closes THEN 1 ELSE 0)
               /\ obs' = [op |-> "P", d |-> d,
                          ret |-> IF returns THEN r1.buf[p.slot] ELSE 0,
                          insp |-> insp',
                          ss |-> SsObs(nst', sst'),
                          se |-> IF nen' > 0 /\ ~insp' THEN sen' * F + senx' ELSE 0]
               /\ UNCHANGED <<oob, S, E, ended>>

(* the pop loop of endpointer_end_stream: pops while the popped flag is speech.                 *)
(* acc = [ring, on (samples), sen, stopped]                                                      *)
RECURSIVE Drain(_)
Drain(a) ==
    IF a.ring.n = 0 \/ a.stopped THEN a
    ELSE LET p == Pop(a.ring)
         IN IF p.flag = 1
            THEN Drain([ring |-> p.ring, on |-> a.on + F, sen |-> p.ring.qstart, stopped |-> FALSE])
            ELSE Drain([ring |-> p.ring, on |-> a.on, sen |-> a.sen, stopped |-> TRUE])

(* endpointer_end_stream(ep, frame, t, &out_nsamp), t <= F *)
EndStream(t) ==
    /\ ~oob /\ ~ended
    /\ IF ~insp
       THEN /\ obs' = [op |-> "E", t |-> t, null |-> TRUE, on |-> 0, ids |-> <<>>, insp |-> FALSE,
                       ss |-> SsObs(nst, sst), se |-> IF nen > 0 THEN sen * F + senx ELSE 0]
            /\ ended' = TRUE
            /\ UNCHANGED <<buf, isSp, pos, n, qstart, ts, tsx, insp, sst, sen, senx, oob, S, E, nst, nen>>
       ELSE LET r0 == Linearize(Ring)
                a == Drain([ring |-> r0, on |-> 0, sen |-> qstart, stopped |-> FALSE])
                r == a.ring
                \* if (ep_empty(ep) && ep->speech_end == ep->qstart_time) and not (pos == maxlen)
                tail == r.n = 0 /\ a.sen = r.qstart /\ r.pos # M
                wslot == r.pos                               \* memcpy(ep->buf + ep->pos * frame_size, frame, nsamp)
                bufw == IF tail /\ t > 0 THEN [r.buf EXCEPT ![wslot] = TRAIL] ELSE r.buf
                on == a.on + (IF tail THEN t ELSE 0)
                nslots == (on + F - 1) \div F                \* slots the caller reads from ep->buf
                bad == r.bad \/ (tail /\ t > 0 /\ ~InRing(wslot)) \/ nslots > M
            IN IF bad THEN Crash
               ELSE /\ buf' = bufw /\ isSp' = r.isSp /\ pos' = r.pos /\ n' = 0 /\ qstart' = r.qstart
                    /\ insp' = FALSE
                    /\ tsx' = IF tail THEN tsx + t ELSE tsx
                    /\ sen' = IF tail THEN ts ELSE a.sen
                    /\ senx' = IF tail THEN tsx + t ELSE 0
                    /\ nen' = nen + 1 /\ ended' = TRUE
                    /\ obs' = [op |-> "E", t |-> t, null |-> FALSE, on |-> on,
                               ids |-> [j \in 1..nslots |-> IF bufw[j - 1] = TRAIL THEN 0 ELSE bufw[j - 1]],
                               insp |-> FALSE, ss |-> SsObs(nst, sst), se |-> sen' * F + senx']
                    /\ UNCHANGED <<ts, sst, oob, S, E, nst>>

\* one named action per kind of step so that coverage shows each kind occurs
PIdle(d) == ~insp /\ Process(d) /\ ~oob' /\ ~insp'
POpen(d) == ~insp /\ Process(d) /\ insp'
PStay(d) == insp /\ Process(d) /\ ~oob' /\ insp'
PClose(d) == insp /\ Process(d) /\ ~oob' /\ ~insp'
PCrash(d) == Process(d) /\ oob'
EndIn(t) == insp /\ EndStream(t)
EndOut(t) == ~insp /\ EndStream(t)
Next == \/ \E d \in {0, 1} : PIdle(d) \/ POpen(d) \/ PStay(d) \/ PClose(d) \/ PCrash(d)
        \/ \E t \in TrailLens : EndIn(t) \/ EndOut(t)
Spec == Init /\ [][Next]_vars

-----------------------------------------------------------------------------
(* Refinement: the ring read from pos for n slots is the FIFO of Layer A. *)
AbsState == [k |-> ts,
             fifo |-> [i \in 1..n |-> [id |-> buf[(pos + i - 1) % M], sp |-> isSp[(pos + i - 1) % M]]],
             insp |-> insp, ss |-> sst * F, se |-> sen * F + senx,
             nstart |-> nst, nend |-> nen, ended |-> ended]
A == INSTANCE EndpointerAbs WITH Cfgs <- {[maxlen |-> M, start |-> p[1], end |-> p[2], fsize |-> F] : p \in Pairs},
                                  Trails <- TrailLens, st <- AbsState, out <- obs,
                                  cf <- [maxlen |-> M, start |-> S, end |-> E, fsize |-> F]
Refines == A!ASpec

TypeOK == /\ pos \in Slots /\ n \in 0..M /\ \A i \in Slots : isSp[i] \in {0, 1}
          /\ qstart <= ts /\ insp \in BOOLEAN
NoOob == ~oob
\* the clock of the oldest queued frame: qstart_time + n frames = timestamp
QueueClock == ~ended => qstart + n = ts
\* "VAD queue overflow (should not happen)": never in a segment with a full queue between calls
NoOverflow == insp => n < M
\* Where exactly the untouched ep_speech_count (CountFix = FALSE) leaves the ring: a frame is pushed
\* while the ring head is the last slot and the queue stays partly filled (n + 1 < M after the push).
\* Used by the check to recognise this defect in a crash of the real code (diagnostic only).
LastSlotPartial == pos = M - 1 /\ n + 1 < M
CrashOnlyThen == [][(~oob /\ oob') => LastSlotPartial]_vars
CrashAlwaysThen == [][LastSlotPartial => ts' = ts]_vars
=============================================================================
