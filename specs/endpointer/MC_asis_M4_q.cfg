SPECIFICATION Spec
CONSTANTS
  M = 4
  F = 2
  MaxFrames = 14
  CountFix = FALSE
INVARIANTS TypeOK QueueClock NoOverflow
PROPERTIES Refines CrashOnlyThen CrashAlwaysThen
CHECK_DEADLOCK FALSE
