SPECIFICATION Spec
CONSTANTS
  M = 5
  F = 2
  MaxFrames = 18
  CountFix = FALSE
INVARIANTS TypeOK QueueClock NoOverflow
PROPERTIES Refines CrashOnlyThen CrashAlwaysThen
CHECK_DEADLOCK FALSE
