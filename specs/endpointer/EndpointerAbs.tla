---------------------------- MODULE EndpointerAbs ----------------------------
(***************************************************************************)
(* Layer A for property C15: what the endpointer is, said without rings.   *)
(*                                                                         *)
(* The stream is the sequence of frames given to endpointer_process();     *)
(* frame number i (1-based) occupies samples (i-1)*F .. i*F of the stream, *)
(* F = frame size in samples.  Every frame gets a speech decision 0/1 from *)
(* the voice activity detector.  Time is counted in samples of the stream  *)
(* (integers), never in doubles: a time of x seconds is the sample         *)
(* position x*rate.                                                        *)
(*                                                                         *)
(* The look-back window is a FIFO of at most MaxLen frames: the most       *)
(* recent frames that were neither handed back nor pushed out by newer     *)
(* ones.  After every frame:                                               *)
(*   outside a segment: a segment opens iff MORE than `start' frames of    *)
(*       the window are speech; its start time is the position of the      *)
(*       oldest frame of the window, which is handed back by that call;    *)
(*   inside a segment: every call hands back the oldest frame of the       *)
(*       window; the segment closes iff FEWER than `end' frames of the     *)
(*       window are speech, its end time being the end of the frame that   *)
(*       this call hands back.                                             *)
(* Ending the stream inside a segment hands back the leading run of speech *)
(* frames of the window and, iff that is the whole window, the trailing    *)
(* partial frame; the segment's end time is the end of what was handed     *)
(* back.  Outside a segment nothing is handed back.                        *)
(*                                                                         *)
(* A configuration is a record c = [maxlen, start, end, fsize].  `start'   *)
(* and `end' are the configured fraction (ratio) and its complement        *)
(* expressed in frames of the window the way the initialiser documents it: *)
(*   maxlen = round(window / frame_length), start = floor(ratio * maxlen), *)
(*   end = round((1 - ratio) * maxlen); accepted iff both lie strictly     *)
(* between 0 and maxlen.                                                   *)
(***************************************************************************)
EXTENDS Integers, Sequences, FiniteSets

----------------------------------------------------------------------------
(* Configuration arithmetic, exact (window in ms, ratio in 1/1000, rate in Hz, fsize in samples). *)
MaxLenOf(win_ms, fsize, rate) == (2 * win_ms * rate + 1000 * fsize) \div (2000 * fsize)
StartOf(ratio_pm, maxlen) == (ratio_pm * maxlen) \div 1000
EndOf(ratio_pm, maxlen) == (2 * (1000 - ratio_pm) * maxlen + 1000) \div 2000
Admissible(maxlen, start, end) == start > 0 /\ start < maxlen /\ end > 0 /\ end < maxlen
ConfigOf(win_ms, ratio_pm, fsize, rate) ==
    LET m == MaxLenOf(win_ms, fsize, rate)
    IN [maxlen |-> m, start |-> StartOf(ratio_pm, m), end |-> EndOf(ratio_pm, m), fsize |-> fsize]
\* every (start, end) some ratio yields for a window of m frames
AdmissiblePairs(m) ==
    {p \in (1..m-1) \X (1..m-1) : \E pm \in 1..999 : p[1] = StartOf(pm, m) /\ p[2] = EndOf(pm, m)}

----------------------------------------------------------------------------
(* The abstract state and the two calls as functions state -> (state, observable). *)
Count(q) == Cardinality({i \in DOMAIN q : q[i].sp = 1})

\* length of the leading run of speech frames of q
RECURSIVE LeadRun(_)
LeadRun(q) == IF q = <<>> \/ Head(q).sp # 1 THEN 0 ELSE 1 + LeadRun(Tail(q))

AbsInit == [k |-> 0,          \* frames fed so far
            fifo |-> <<>>,    \* the look-back window: records [id, sp], ids consecutive, last one = k
            insp |-> FALSE,   \* inside a segment
            ss |-> 0, se |-> 0,        \* start / end position (samples) of the last segment
            nstart |-> 0, nend |-> 0,  \* segments opened / closed so far
            ended |-> FALSE]

AbsProcess(c, s, d) ==
    LET id == s.k + 1
        f0 == Append(s.fifo, [id |-> id, sp |-> d])
        f1 == IF Len(f0) > c.maxlen THEN Tail(f0) ELSE f0
        cnt == Count(f1)
        opens == ~s.insp /\ cnt > c.start
        closes == s.insp /\ cnt < c.end
        returns == s.insp \/ opens
        h == Head(f1)
    IN [st |-> [k |-> id,
                fifo |-> IF returns THEN Tail(f1) ELSE f1,
                insp |-> (s.insp /\ ~closes) \/ opens,
                ss |-> IF opens THEN (h.id - 1) * c.fsize ELSE s.ss,
                se |-> IF closes THEN h.id * c.fsize ELSE IF opens THEN 0 ELSE s.se,
                nstart |-> s.nstart + (IF opens THEN 1 ELSE 0),
                nend |-> s.nend + (IF closes THEN 1 ELSE 0),
                ended |-> FALSE],
        ret |-> IF returns THEN h.id ELSE 0,
        \* a frame that was never handed back is pushed out while a segment is open: a gap
        lost |-> s.insp /\ Len(f0) > c.maxlen]

\* t = number of samples of the trailing partial frame (0..fsize).  ids: the frames handed back,
\* 0 standing for the trailing partial frame.
AbsEndStream(c, s, t) ==
    IF ~s.insp
    THEN [st |-> [s EXCEPT !.ended = TRUE], null |-> TRUE, on |-> 0, ids |-> <<>>]
    ELSE LET r == LeadRun(s.fifo)
             all == r = Len(s.fifo)
             endpos == (s.k - Len(s.fifo) + r) * c.fsize + (IF all THEN t ELSE 0)
         IN [st |-> [s EXCEPT !.fifo = <<>>, !.insp = FALSE, !.se = endpos, !.nend = s.nend + 1,
                              !.ended = TRUE],
             null |-> FALSE,
             on |-> r * c.fsize + (IF all THEN t ELSE 0),
             ids |-> [i \in 1..r |-> s.fifo[i].id] \o (IF all /\ t > 0 THEN <<0>> ELSE <<>>)]

\* what a caller can see after a call (times only where the property speaks about them:
\* the start once a segment was opened, the end once one was closed and none is open)
ObsProcess(d, r) == [op |-> "P", d |-> d, ret |-> r.ret, insp |-> r.st.insp,
                     ss |-> IF r.st.nstart > 0 THEN r.st.ss ELSE 0,
                     se |-> IF r.st.nend > 0 /\ ~r.st.insp THEN r.st.se ELSE 0]
ObsEnd(t, r) == [op |-> "E", t |-> t, null |-> r.null, on |-> r.on, ids |-> r.ids, insp |-> FALSE,
                 ss |-> IF r.st.nstart > 0 THEN r.st.ss ELSE 0,
                 se |-> IF r.st.nend > 0 THEN r.st.se ELSE 0]

----------------------------------------------------------------------------
(* The same as a state machine (refinement target of EndpointerImpl).  The configuration is picked *)
(* once, in the initial state, from the set Cfgs.                                                    *)
CONSTANTS Cfgs,       \* set of configuration records
          Trails,     \* trailing lengths tried by EndStream
          MaxFrames   \* bound on the stream length
VARIABLES st, out, cf

AInitP == cf \in Cfgs /\ st = AbsInit /\ out = [op |-> "new"]
AProc(d) == /\ ~st.ended /\ st.k < MaxFrames
            /\ LET r == AbsProcess(cf, st, d) IN st' = r.st /\ out' = ObsProcess(d, r)
            /\ cf' = cf
AEnd(t) == /\ ~st.ended
           /\ LET r == AbsEndStream(cf, st, t) IN st' = r.st /\ out' = ObsEnd(t, r)
           /\ cf' = cf
ANext == (\E d \in {0, 1} : AProc(d)) \/ (\E t \in Trails : AEnd(t))
ASpec == AInitP /\ [][ANext]_<<st, out, cf>>

\* structural facts of the abstract machine
AFifoOK == /\ Len(st.fifo) <= cf.maxlen
           /\ \A i \in DOMAIN st.fifo : st.fifo[i].id = st.k - Len(st.fifo) + i
           /\ st.insp => Len(st.fifo) < cf.maxlen /\ Len(st.fifo) >= 1
=============================================================================
