------------------------------- MODULE MC_abs -------------------------------
(***************************************************************************)
(* Layer A checked against itself: the FIFO machine of EndpointerAbs is    *)
(* run with a history of everything callers saw, and the sentences of      *)
(* property C15 are evaluated on that history, each phrased from the       *)
(* stream alone (decisions + what was handed back), without the FIFO:      *)
(* the look-back window of call i is "the last M frames fed, minus those   *)
(* already handed back".                                                   *)
(***************************************************************************)
EXTENDS EndpointerAbs, TLC
CONSTANTS M, F
VARIABLE hist

MCCfgs == {[maxlen |-> M, start |-> p[1], end |-> p[2], fsize |-> F] : p \in AdmissiblePairs(M)}
MCTrails == {0, 1, F}

HInit == AInitP /\ hist = <<>>
\* one named action per kind of step so that TLC's coverage shows that each kind occurs
HProc(d) == AProc(d) /\ hist' = Append(hist, out')
HIdle(d) == ~st.insp /\ HProc(d) /\ ~st'.insp        \* outside a segment, stays outside
HOpen(d) == ~st.insp /\ HProc(d) /\ st'.insp         \* a segment begins
HStay(d) == st.insp /\ HProc(d) /\ st'.insp          \* inside, stays inside
HClose(d) == st.insp /\ HProc(d) /\ ~st'.insp        \* a segment ends
HEndIn(t) == st.insp /\ AEnd(t) /\ hist' = Append(hist, out')
HEndOut(t) == ~st.insp /\ AEnd(t) /\ hist' = Append(hist, out')
HNext == \/ \E d \in {0, 1} : HIdle(d) \/ HOpen(d) \/ HStay(d) \/ HClose(d)
         \/ \E t \in Trails : HEndIn(t) \/ HEndOut(t)
HSpec == HInit /\ [][HNext]_<<st, out, cf, hist>>

N == Len(hist)
\* every prefix of a history is itself a reachable state, so it is enough to evaluate the sentences
\* for the most recent call
Calls == IF N = 0 THEN {} ELSE {N}
MaxI(a, b) == IF a > b THEN a ELSE b
NonZero(x) == x # 0
RetIds(i) == IF hist[i].op = "P" THEN (IF hist[i].ret # 0 THEN <<hist[i].ret>> ELSE <<>>)
             ELSE SelectSeq(hist[i].ids, NonZero)
RetSet(i) == {RetIds(i)[j] : j \in DOMAIN RetIds(i)}
Fed(i) == IF hist[i].op = "P" THEN i ELSE i - 1          \* frames fed once call i is over
InspBefore(i) == IF i = 1 THEN FALSE ELSE hist[i - 1].insp
SsBefore(i) == IF i = 1 THEN 0 ELSE hist[i - 1].ss
RetBefore(i) == UNION {RetSet(j) : j \in 1..i-1}
LastRetBefore(i) == IF RetBefore(i) = {} THEN 0 ELSE CHOOSE x \in RetBefore(i) : \A y \in RetBefore(i) : y <= x
Window(i) == MaxI(LastRetBefore(i) + 1, Fed(i) - M + 1) .. Fed(i)
Cnt(i) == Cardinality({j \in Window(i) : hist[j].d = 1})

\* "byte-identical copies of frames it was given": an id handed back names a frame already fed
Excerpt == \A i \in Calls : RetSet(i) \subseteq 1..Fed(i)
\* "in order ... without repeats ... without overlap between segments"
InOrder == \A i \in Calls :
              /\ \A x \in RetSet(i) : x > LastRetBefore(i)
              /\ \A a, b \in DOMAIN RetIds(i) : a < b => RetIds(i)[a] < RetIds(i)[b]
\* "without gaps inside a segment": while a segment is open every call hands back the next frame
NoGap == \A i \in Calls : InspBefore(i) =>
              /\ hist[i].op = "P" => hist[i].ret = LastRetBefore(i) + 1
              /\ \A a \in DOMAIN RetIds(i) : RetIds(i)[a] = LastRetBefore(i) + a
              /\ LastRetBefore(i) + 1 >= Fed(i) - M + 1        \* nothing unreturned left the window
\* "a segment begins only after more than the configured fraction of the window was speech"
StartRule == \A i \in Calls : (hist[i].op = "P" /\ ~InspBefore(i)) =>
              /\ hist[i].insp <=> Cnt(i) > cf.start
              /\ hist[i].ret # 0 <=> hist[i].insp
              /\ hist[i].insp => /\ hist[i].ret = MaxI(LastRetBefore(i) + 1, i - M + 1)
                                 /\ hist[i].ss = (hist[i].ret - 1) * F       \* start time = first frame's position
              /\ ~hist[i].insp => hist[i].ss = SsBefore(i)
\* "and ends once fewer than the complementary fraction is"
EndRule == \A i \in Calls : (hist[i].op = "P" /\ InspBefore(i)) =>
              /\ ~hist[i].insp <=> Cnt(i) < cf.end
              /\ ~hist[i].insp => hist[i].se = hist[i].ret * F                \* end time = end of last frame
              /\ hist[i].ss = SsBefore(i)
\* "ending the stream returns the queued speech frames plus the trailing partial frame"
EndStreamRule == \A i \in Calls : hist[i].op = "E" =>
              IF ~InspBefore(i) THEN hist[i].null /\ hist[i].on = 0 /\ hist[i].ids = <<>>
              ELSE LET lo == LastRetBefore(i) + 1
                       hi == Fed(i)
                       run == {r \in 0..(hi - lo + 1) : \A j \in lo..(lo + r - 1) : hist[j].d = 1}
                       r == CHOOSE x \in run : \A y \in run : y <= x
                       all == lo + r - 1 = hi
                       t == hist[i].t
                   IN /\ ~hist[i].null
                      /\ hist[i].ids = [a \in 1..r |-> lo + a - 1] \o (IF all /\ t > 0 THEN <<0>> ELSE <<>>)
                      /\ hist[i].on = r * F + (IF all THEN t ELSE 0)
                      /\ hist[i].se = (lo + r - 1) * F + (IF all THEN t ELSE 0)
                      /\ hist[i].ss = SsBefore(i)
NoLoss == \A d \in {0, 1} : ~AbsProcess(cf, st, d).lost
Property == Excerpt /\ InOrder /\ NoGap /\ StartRule /\ EndRule /\ EndStreamRule
=============================================================================
