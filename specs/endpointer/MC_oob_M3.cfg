SPECIFICATION Spec
CONSTANTS
  M = 3
  F = 2
  MaxFrames = 16
  CountFix = FALSE
INVARIANTS NoOob

CHECK_DEADLOCK FALSE
