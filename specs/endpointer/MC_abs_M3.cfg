SPECIFICATION HSpec
CONSTANTS
  M = 3
  F = 2
  Cfgs <- MCCfgs
  Trails <- MCTrails
  MaxFrames = 12
INVARIANTS Excerpt InOrder NoGap StartRule EndRule EndStreamRule NoLoss AFifoOK
CHECK_DEADLOCK FALSE
