------------------------------ MODULE MC_tour ------------------------------
(***************************************************************************)
(* Labelled state graph of the Layer-A machine for ONE real configuration  *)
(* (by default the library's default: window of 10 frames, open above 9,   *)
(* close below 1), exported edge by edge.  The view keeps what decides the *)
(* future -- the speech flags in the look-back window, whether a segment   *)
(* is open, whether the stream was ended -- and hides frame numbers and    *)
(* times, so the graph is finite without a bound on the stream length.     *)
(* tools/vlib/tours.py turns it into call sequences that take every edge;  *)
(* they are executed on the real endpointer and validated by               *)
(* EndpointerTrace.  F is symbolic here (3): trailing lengths 0, 1, F are  *)
(* mapped to 0, 1, frame_size by the check.                                *)
(***************************************************************************)
EXTENDS EndpointerAbs, TLC, Json
CONSTANTS TM, TS, TE
VARIABLE last

TourCfgs == {[maxlen |-> TM, start |-> TS, end |-> TE, fsize |-> 3]}
TourTrails == {0, 1, 3}

TInit == AInitP /\ last = [op |-> "new"]
TNext == \/ \E d \in {0, 1} : AProc(d) /\ last' = [op |-> "P", d |-> d]
         \/ \E t \in TourTrails : (st.insp \/ t = 1) /\ AEnd(t) /\ last' = [op |-> "E", t |-> t]
TSpec == TInit /\ [][TNext]_<<st, out, cf, last>>

Flags(s) == [i \in DOMAIN s.fifo |-> s.fifo[i].sp]
Proj(s) == <<Flags(s), s.insp, s.ended>>
TourView == Proj(st)
DumpEdge == PrintT(<<"EDGE", ToJson([f |-> ToString(Proj(st)), a |-> last', t |-> ToString(Proj(st'))])>>)
=============================================================================
