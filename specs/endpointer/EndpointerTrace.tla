--------------------------- MODULE EndpointerTrace ---------------------------
(***************************************************************************)
(* Layer C (code -> spec) for C15: validates executions of the real        *)
(* ps_endpointer.c recorded by harness/endpointer/ep_drv.c against         *)
(* EndpointerAbs, call by call.                                            *)
(*                                                                         *)
(*   Header  a fresh endpointer: window (ms), ratio (1/1000), and the      *)
(*           sample rate and frame size the API reports; the window length *)
(*           and both thresholds in frames follow from these.              *)
(*   P       endpointer_process on frame number k with VAD decision d:     *)
(*           ret = 0 for NULL, otherwise the id of the fed frame whose     *)
(*           bytes are identical to the frame handed back (-1: none);      *)
(*           insp, ss, se = endpointer_in_speech / speech_start /          *)
(*           speech_end as sample positions; terr = 1 iff a time was not   *)
(*           within 1e-9 s of a sample position.                           *)
(*   E       endpointer_end_stream with t trailing samples: null, on =     *)
(*           out_nsamp, ids = the frames found in the returned samples     *)
(*           (0 = the trailing partial frame, -1 = bytes of no frame).     *)
(* speech_start is compared once a segment has been opened, speech_end     *)
(* once one has been closed and none is open (the property speaks about    *)
(* the times of segments, not about the fields before there is one).       *)
(***************************************************************************)
EXTENDS Integers, Sequences, FiniteSets, TLC, Json, IOUtils

JTrace == ndJsonDeserialize(IOEnv.TRACE)

VARIABLES l, s, c
Cfgs == {}      \* unused constants of the state-machine half of EndpointerAbs
Trails == {}
MaxFrames == 0
st == 0
out == 0
cf == 0
INSTANCE EndpointerAbs

Ev == JTrace[l]
NoCfg == [maxlen |-> 0, start |-> 0, end |-> 0, fsize |-> 0]

TInit == l = 1 /\ s = AbsInit /\ c = NoCfg /\ TLCSet(1, 0)

\* only configurations the initialiser accepted appear in a trace; the thresholds it must have
\* derived are admissible
THeader == /\ Ev.e = "Header" /\ Ev.init = 1 /\ Ev.flen_ok = 1
           /\ LET cc == ConfigOf(Ev.win_ms, Ev.ratio_pm, Ev.fsize, Ev.rate)
              IN Admissible(cc.maxlen, cc.start, cc.end) /\ c' = cc
           /\ s' = AbsInit

\* In diagnosis mode (environment DIAG=1, used by the check on an execution that was already rejected)
\* a mismatch is printed with the model's classification of the call instead of stopping the run.
Diag == IOEnv.DIAG = "1"
Chk(field, phase, exp, got) ==
    IF exp = got THEN TRUE
    ELSE Diag /\ PrintT(<<"MISMATCH", l, field, phase, ToString(exp), ToString(got)>>)

TProcess == /\ Ev.e = "P" /\ ~s.ended /\ c.maxlen > 0
            /\ Ev.k = s.k + 1 /\ Ev.d \in {0, 1}
            /\ LET r == AbsProcess(c, s, Ev.d)
                   o == ObsProcess(Ev.d, r)
                   ph == IF ~s.insp THEN (IF r.st.insp THEN "open" ELSE "idle")
                         ELSE (IF r.st.insp THEN "inside" ELSE "close")
               IN /\ Chk("ret", ph, o.ret, Ev.ret)
                  /\ Chk("in_speech", ph, o.insp, Ev.insp = 1)
                  /\ Chk("time_precision", ph, 0, Ev.terr)
                  /\ r.st.nstart > 0 => Chk("speech_start", ph, o.ss, Ev.ss)
                  /\ (r.st.nend > 0 /\ ~r.st.insp) => Chk("speech_end", ph, o.se, Ev.se)
                  /\ s' = r.st
            /\ UNCHANGED c

TEnd == /\ Ev.e = "E" /\ ~s.ended /\ c.maxlen > 0
        /\ Ev.t >= 0 /\ Ev.t <= c.fsize
        /\ LET r == AbsEndStream(c, s, Ev.t)
               o == ObsEnd(Ev.t, r)
               ph == IF s.insp THEN "end_in" ELSE "end_out"
           IN /\ Chk("out_nsamp", ph, o.on, Ev.on)
              /\ Chk("frames", ph, o.ids, Ev.ids)
              /\ r.null => Chk("null", ph, 1, Ev.null)        \* outside a segment nothing is returned
              /\ o.on > 0 => Chk("null", ph, 0, Ev.null)
              /\ Chk("in_speech", ph, 0, Ev.insp)
              /\ Chk("time_precision", ph, 0, Ev.terr)
              /\ r.st.nstart > 0 => Chk("speech_start", ph, o.ss, Ev.ss)
              /\ r.st.nend > 0 => Chk("speech_end", ph, o.se, Ev.se)
              /\ s' = r.st
        /\ UNCHANGED c

TNext == /\ l <= Len(JTrace)
         /\ (THeader \/ TProcess \/ TEnd)
         /\ l' = l + 1
         /\ TLCSet(1, l)

TSpec == TInit /\ [][TNext]_<<l, s, c>>

\* accepted iff every line was consumed; otherwise say where it stopped
Accepted == IF TLCGet(1) = Len(JTrace) THEN TRUE
            ELSE PrintT(<<"REJECTED-AT", TLCGet(1) + 1>>) /\ FALSE
=============================================================================
