------------------------------ MODULE MC_impl ------------------------------
(* Bounded instances of EndpointerImpl: every admissible (start, end) for the window length M is  *)
(* picked in the initial state, every decision sequence up to MaxFrames, end_stream at every point *)
(* with a trailing frame of 0, 1 and F samples.                                                    *)
EXTENDS EndpointerImpl
=============================================================================
