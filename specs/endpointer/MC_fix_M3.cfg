SPECIFICATION Spec
CONSTANTS
  M = 3
  F = 2
  MaxFrames = 18
  CountFix = TRUE
INVARIANTS TypeOK NoOob QueueClock NoOverflow
PROPERTY Refines
CHECK_DEADLOCK FALSE
