SPECIFICATION Spec
CONSTANTS
  Family <- FamilyQ
  NFrames = 2
  Deltas <- DeltasMC
  MaxHist = 4
  MaxLive = 2
  EndTieDev = FALSE
INVARIANTS PartialLatticeInv FinalLatticeInv
CHECK_DEADLOCK FALSE
