------------------------------ MODULE MC_AStar ------------------------------
EXTENDS AStarImpl, Json
ScoresMC == {0, -1}
Scores3 == {0, -1, -2}
Scores2 == {0, -1}
(* export of every DAG of the model (single seed: the start node) for execution on the real lattice code *)
InitExport == /\ dag \in {[links |-> L, seeds |-> {1}] : L \in AllDags}
              /\ agenda = <<>> /\ out = <<>> /\ dropped = FALSE /\ started = FALSE
SpecExport == InitExport /\ [][Next]_vars
DumpDag == PrintT(<<"DAG", ToJson(SetToSeq(dag.links))>>) /\ FALSE
=============================================================================
