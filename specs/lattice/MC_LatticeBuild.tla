-------------------------- MODULE MC_LatticeBuild --------------------------
EXTENDS LatticeBuildImpl
G(n, s, f, arcs) == [n |-> n, start |-> s, final |-> f, arcs |-> arcs]
GLinear   == G(3, 0, 2, {<<0,1,"a",0>>, <<1,2,"b",0>>})
GOptional == G(3, 0, 2, {<<0,1,"a",0>>, <<1,2,"b",-1>>, <<1,2,"",-2>>})
GLoop     == G(2, 0, 1, {<<0,0,"a",-1>>, <<0,1,"b",0>>})
GNullEnd  == G(4, 0, 3, {<<0,1,"a",0>>, <<1,2,"",0>>, <<2,3,"",-1>>})
GShared   == G(4, 0, 3, {<<0,1,"a",-1>>, <<0,2,"a",-1>>, <<1,3,"b",0>>, <<2,3,"c",0>>})
GNullStart == G(3, 0, 2, {<<0,1,"",0>>, <<1,2,"a",0>>, <<0,2,"b",-1>>})
DeltasMC == {0, -1}
Deltas0 == {0}
FamilyTie == {GShared}
FamilyQ == {GLoop, GShared, GNullStart, GOptional}
FamilyL == {GLinear, GOptional, GLoop, GShared, GNullStart, GNullEnd}
=============================================================================
