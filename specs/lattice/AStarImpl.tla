------------------------------ MODULE AStarImpl ------------------------------
(***************************************************************************)
(* Layer B for C12: the A* N-best search of ps_lattice.c transcribed       *)
(* (astar_search_start, best_rem_score, path_insert with the MAX_PATHS     *)
(* cap, path_extend, astar_next) and run on EVERY small DAG:               *)
(*   nodes 1..N in topological order, node 1 = start, node N = end,        *)
(*   any subset of forward links with scores from Scores, every node on a  *)
(*   start-to-end path; Seeds = nodes with start frame 0 (the start node   *)
(*   and, when it is a synthetic <s>, any of its successors).              *)
(* Invariants: hypotheses come out in non-increasing score order, each is  *)
(* a seed-to-end path of the DAG, the first one from the start node has    *)
(* the best-path score, and without truncation every path is enumerated.   *)
(***************************************************************************)
EXTENDS Naturals, Integers, Sequences, FiniteSets, TLC, SequencesExt

CONSTANTS N,          \* number of nodes
          Scores,     \* possible link scores (<= 0)
          MaxPaths    \* MAX_PATHS (500 in the C code; small here so that truncation happens)

VARIABLES dag,        \* [links : set of <<from, to, ascr>>, seeds : set of nodes]
          agenda,     \* sorted list of partial paths [nodes, score]
          out,        \* completed hypotheses, in the order astar_next returned them
          dropped,    \* some path was rejected/pruned because of MaxPaths
          started
vars == <<dag, agenda, out, dropped, started>>

WORST == -1000000
Pairs == {<<i, j>> \in (1..N) \X (1..N) : i < j}
Succs(n) == {l \in dag.links : l[1] = n}

RECURSIVE Fwd(_, _), Bwd(_, _)
Fwd(L, S) == LET T == S \cup {l[2] : l \in {x \in L : x[1] \in S}} IN IF T = S THEN S ELSE Fwd(L, T)
Bwd(L, S) == LET T == S \cup {l[1] : l \in {x \in L : x[2] \in S}} IN IF T = S THEN S ELSE Bwd(L, T)
WellFormedLinks(L) == Fwd(L, {1}) = 1..N /\ Bwd(L, {N}) = 1..N

\* every assignment "absent or a score" to the forward pairs
AllDags == {L \in SUBSET {<<p[1], p[2], s>> : p \in Pairs, s \in Scores} :
               /\ \A a, b \in L : (a[1] = b[1] /\ a[2] = b[2]) => a = b
               /\ WellFormedLinks(L)}

\* exact best remaining score to the end (best_rem_score)
RECURSIVE Rem(_)
Rem(n) == IF n = N THEN 0
          ELSE IF Succs(n) = {} THEN WORST
          ELSE LET c == {Rem(l[2]) + l[3] : l \in Succs(n)} IN CHOOSE m \in c : \A x \in c : x <= m

Total(p) == p.score + Rem(p.nodes[Len(p.nodes)])

\* path_insert: before the first path whose total is strictly smaller; give up beyond MaxPaths
Insert(ag, p) ==
    LET pos == IF \E i \in DOMAIN ag : Total(ag[i]) < Total(p)
               THEN CHOOSE i \in DOMAIN ag : Total(ag[i]) < Total(p) /\ \A j \in 1..(i-1) : Total(ag[j]) >= Total(p)
               ELSE Len(ag) + 1
    IN IF pos <= MaxPaths
       THEN [ag |-> SubSeq(ag, 1, pos - 1) \o <<p>> \o SubSeq(ag, pos, Len(ag)), drop |-> FALSE]
       ELSE [ag |-> SubSeq(ag, 1, MaxPaths), drop |-> TRUE]      \* reject newpath, prune beyond MAX_PATHS

RECURSIVE InsertAll(_, _, _)
InsertAll(ag, ps, drop) ==
    IF ps = <<>> THEN [ag |-> ag, drop |-> drop]
    ELSE LET p == Head(ps)
             \* path_extend: first see if the hypothesis would be worse than the worst of a full agenda
             full == Len(ag) >= MaxPaths
         IN IF full /\ Total(p) < Total(ag[Len(ag)]) THEN InsertAll(ag, Tail(ps), TRUE)
            ELSE LET r == Insert(ag, p) IN InsertAll(r.ag, Tail(ps), drop \/ r.drop)

SeedSets(L) == {{1} \cup T : T \in SUBSET {l[2] : l \in {x \in L : x[1] = 1}}}
Init == /\ dag \in UNION {{[links |-> L, seeds |-> S] : S \in SeedSets(L)} : L \in AllDags}
        /\ agenda = <<>> /\ out = <<>> /\ dropped = FALSE /\ started = FALSE

\* astar_search_start: one initial path per seed node
Start == /\ ~started
         /\ LET ps == SetToSeq({[nodes |-> <<s>>, score |-> 0] : s \in dag.seeds})
                r == InsertAll(<<>>, ps, FALSE)
            IN agenda' = r.ag /\ dropped' = r.drop
         /\ started' = TRUE /\ UNCHANGED <<dag, out>>

Top == Head(agenda)
\* astar_next, complete hypothesis
Pop == /\ started /\ agenda # <<>> /\ Top.nodes[Len(Top.nodes)] = N
       /\ out' = Append(out, Top) /\ agenda' = Tail(agenda)
       /\ UNCHANGED <<dag, dropped, started>>
\* astar_next, path_extend
Extend == /\ started /\ agenda # <<>> /\ Top.nodes[Len(Top.nodes)] # N
          /\ LET last == Top.nodes[Len(Top.nodes)]
                 ext == SetToSeq({[nodes |-> Append(Top.nodes, l[2]), score |-> Top.score + l[3]] :
                                     l \in {x \in Succs(last) : Rem(x[2]) > WORST}})
                 r == InsertAll(Tail(agenda), ext, dropped)
             IN agenda' = r.ag /\ dropped' = r.drop
          /\ UNCHANGED <<dag, out, started>>

Next == Start \/ Pop \/ Extend
Spec == Init /\ [][Next]_vars

-----------------------------------------------------------------------------
IsPath(p) == /\ p.nodes[1] \in dag.seeds /\ p.nodes[Len(p.nodes)] = N
             /\ \A i \in 1..(Len(p.nodes) - 1) : \E l \in dag.links : l[1] = p.nodes[i] /\ l[2] = p.nodes[i+1]
SumOf(p) == LET RECURSIVE S(_)
                S(i) == IF i >= Len(p.nodes) THEN 0
                        ELSE (CHOOSE l \in dag.links : l[1] = p.nodes[i] /\ l[2] = p.nodes[i+1])[3] + S(i + 1)
            IN S(1)

OutputsArePaths == \A i \in DOMAIN out : IsPath(out[i]) /\ out[i].score = SumOf(out[i])
NonIncreasing == \A i \in DOMAIN out : i > 1 => out[i].score <= out[i-1].score
AgendaSorted == \A i \in DOMAIN agenda : i > 1 => Total(agenda[i]) <= Total(agenda[i-1])
AgendaBounded == Len(agenda) <= MaxPaths + N      \* one extension may overshoot before pruning
\* the best hypothesis that starts at the start node scores Rem(1), the best-path score
BestFirst == \A i \in DOMAIN out : out[i].nodes[1] = 1 => out[i].score <= Rem(1)
FirstFromStartIsBest ==
    LET fs == {i \in DOMAIN out : out[i].nodes[1] = 1}
    IN fs # {} => out[CHOOSE i \in fs : \A j \in fs : i <= j].score = Rem(1)

\* all seed-to-end paths, for completeness when nothing was truncated
RECURSIVE PathsFrom(_)
PathsFrom(n) == IF n = N THEN {<<N>>}
                ELSE UNION {{<<n>> \o q : q \in PathsFrom(l[2])} : l \in Succs(n)}
AllPaths == UNION {PathsFrom(s) : s \in dag.seeds}
CompleteWhenNotTruncated ==
    (started /\ agenda = <<>> /\ ~dropped) => {out[i].nodes : i \in DOMAIN out} = AllPaths
NoDuplicates == \A i, j \in DOMAIN out : i # j => out[i].nodes # out[j].nodes
=============================================================================
