SPECIFICATION Spec
CONSTANTS
  Family <- FamilyTie
  NFrames = 3
  Deltas <- Deltas0
  MaxHist = 5
  MaxLive = 2
  EndTieDev = FALSE
INVARIANTS PartialLatticeInv
CHECK_DEADLOCK FALSE
