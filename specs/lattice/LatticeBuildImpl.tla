-------------------------- MODULE LatticeBuildImpl --------------------------
(***************************************************************************)
(* Layer B for C11: fsg_search_lattice() transcribed as a function of the  *)
(* history table, composed with the abstract search FsgSearchAbs, so that  *)
(* TLC examines the lattice arising from EVERY abstract search outcome     *)
(* (any acoustic scores, any pruning, mid-utterance and final, best paths  *)
(* that never reach the final state, frames without any word exit).        *)
(*                                                                         *)
(*   nodes   one per distinct (start frame, word, grammar destination      *)
(*           state) among the non-null history entries; fef/lef = first /  *)
(*           last end frame                                                *)
(*   links   from the node of an entry to every existing node that starts  *)
(*           in the next frame with a word leaving the entry's destination *)
(*           state directly or through ONE null arc (the FSG is closed);   *)
(*           one link per node pair, best score kept (lattice_link)        *)
(*   start   the only node starting at frame 0 that has exits, else a      *)
(*           synthetic <s> linked to all of them (find_start_node)         *)
(*   end     the only node ending in the last frame that has entries;      *)
(*           none: the node with the greatest last end frame (> 0) among   *)
(*           those with entries (any of them on a tie: list order);        *)
(*           several: a synthetic </s> (find_end_node)                     *)
(*   then nodes that do not reach the end are deleted.                     *)
(***************************************************************************)
EXTENDS FsgSearchAbs, LatticePred

CONSTANT EndTieDev      \* TRUE reproduces the end-node choice before fix d619062 (see EndChoices)

NonNull == {i \in 2..Len(hist) : hist[i].arc[3] # EPS}

Sf(i) == hist[hist[i].pred].fr + 1          \* pred = dummy or a frame -1 null entry gives 0
Ascr(i) == hist[i].sc - hist[hist[i].pred].sc
Key(i) == <<Sf(i), hist[i].arc[3], hist[i].arc[2]>>

Keys == {Key(i) : i \in NonNull}
Ends(k) == {hist[i].fr : i \in {j \in NonNull : Key(j) = k}}
MinOf(S) == CHOOSE m \in S : \A x \in S : m <= x

\* nodes that may follow entry i
Targets(i) ==
    LET d == Dest(hist[i])
        nf == hist[i].fr + 1
        direct == {<<nf, a[3], a[2]>> : a \in {x \in SA : x[1] = d /\ x[3] # EPS}}
        vianull == UNION {{<<nf, b[3], b[2]>> : b \in {y \in SA : y[1] = a[2] /\ y[3] # EPS}}
                          : a \in {x \in SA : x[1] = d /\ x[3] = EPS}}
    IN (direct \cup vianull) \cap Keys

AllRaw == UNION {{<<Key(i), k2, Ascr(i), hist[i].fr>> : k2 \in Targets(i)} : i \in NonNull}
\* lattice_link: one link per (from, to), best score
RawLinks == {l \in AllRaw : \A m \in AllRaw : (m[1] = l[1] /\ m[2] = l[2]) => m[3] <= l[3]}

SKey == <<0, "<s>", -1>>
EKey == <<t, "</s>", -1>>

StartCands == {k \in Keys : k[1] = 0 /\ \E l \in RawLinks : l[1] = k}
SynthStart == Cardinality(StartCands) # 1
StartKey == IF SynthStart THEN SKey ELSE CHOOSE k \in StartCands : TRUE
Links1 == RawLinks \cup (IF SynthStart THEN {<<SKey, k, 0, 0>> : k \in StartCands} ELSE {})
Keys1 == Keys \cup (IF SynthStart THEN {SKey} ELSE {})

Lef(k) == IF k = SKey THEN 0 ELSE MaxOf(Ends(k))
Fef(k) == IF k = SKey THEN 0 ELSE MinOf(Ends(k))
HasEntries(k) == \E l \in Links1 : l[2] = k
BestExit(k) == MaxOf({Ascr(i) : i \in {j \in NonNull : Key(j) = k}})

EndCands == {k \in Keys1 : Lef(k) = t - 1 /\ HasEntries(k)}
LateCands == LET c == {k \in Keys1 : Lef(k) > 0 /\ HasEntries(k)}
             IN {k \in c : \A x \in c : Lef(x) <= Lef(k)}
\* End-node candidates: the nodes that end in the last frame, or else (no word exit there) those with the latest exit
\* frame; one candidate is the end node, several are joined by the artificial end node; {} = no lattice.
\* EndTieDev = TRUE is the code before fix d619062: without a candidate in the last frame it kept whichever latest-exit
\* node came first in its list (any of them, for the model), and the others - possibly the first-best's last word -
\* were deleted as not reaching it.
Cands == IF EndCands # {} THEN EndCands ELSE LateCands
EndChoices == IF EndTieDev /\ EndCands = {} THEN LateCands
              ELSE IF Cardinality(Cands) = 1 THEN Cands
              ELSE IF Cands = {} THEN {}
              ELSE {EKey}

LatticeFor(endk) ==
    LET links2 == Links1 \cup (IF endk = EKey THEN {<<k, EKey, BestExit(k), t>> : k \in Cands} ELSE {})
        keys2 == Keys1 \cup (IF endk = EKey THEN {EKey} ELSE {})
        RECURSIVE Back(_)
        Back(S) == LET T == S \cup {l[1] : l \in {x \in links2 : x[2] \in S}} IN IF T = S THEN S ELSE Back(T)
        keep == Back({endk})
        kseq == SetToSeq(keep)
        idx(k) == CHOOSE i \in DOMAIN kseq : kseq[i] = k
        lset == {l \in links2 : l[1] \in keep /\ l[2] \in keep}
        lseq == SetToSeq(lset)
        nodeOf(k) == [w |-> k[2], b |-> k[2], k |-> IF k[2] = SIL THEN 1 ELSE 0, sf |-> k[1],
                      fef |-> IF k = EKey THEN t ELSE Fef(k), lef |-> IF k = EKey THEN t ELSE Lef(k)]
    IN WithAdj([nodes |-> [i \in DOMAIN kseq |-> nodeOf(kseq[i])],
                links |-> [i \in DOMAIN lseq |-> <<idx(lseq[i][1]), idx(lseq[i][2]), lseq[i][3], lseq[i][4]>>],
                start |-> IF StartKey \in keep THEN idx(StartKey) ELSE 0, end |-> idx(endk), frames |-> t])

\* time-bearing segments of the first-best result (raw words), as the segment iterator gives them
BestSegs(final) == LET i == FindExit(final)
                   IN IF i = 0 THEN <<>> ELSE SelectSeq(SegsOf(i), LAMBDA s : s.k # 2)

\* the recorded exception (known_findings.json, C11): a first-best that is ONE word instance from frame 0
KnownGap(segs) == Len(segs) = 1

LatticeOK(final) ==
    \A endk \in EndChoices :
        LET L == LatticeFor(endk)
        IN /\ L.start # 0                     \* the start node survives the deletion pass
           /\ OneStartOneEnd(L) /\ Acyclic(L) /\ AllOnStartEndPath(L)
           /\ NodeTimesOK(L) /\ LinkTimesOK(L)
           /\ PathsAreGrammarPaths(L, ug, UA)
           /\ (BestSegIsPath(L, BestSegs(final)) \/ KnownGap(BestSegs(final)))

PartialLatticeInv == (phase = "idle" /\ t >= 1) => LatticeOK(FALSE)
FinalLatticeInv == (phase = "done" /\ t >= 1) => LatticeOK(TRUE)
=============================================================================
