---------------------------- MODULE LatticeTrace ----------------------------
(***************************************************************************)
(* Layer C for C11 and C12: validates lattices, best paths, posteriors and *)
(* N-best lists dumped from the real decoder through the public lattice    *)
(* API (harness/decoder/dec_drv.c) against LatticePred.                    *)
(* WHICH = "C11" | "C12" selects the clauses.                              *)
(***************************************************************************)
EXTENDS LatticePred, TLC, Json, IOUtils

JTrace == ndJsonDeserialize(IOEnv.TRACE)
WHICH == IOEnv.WHICH

VARIABLES l, g, res, lat
\* g: user's grammar; res: segmentation of the latest Result (same instant as the next Lattice event)
\* lat: latest lattice (for the N-best list that follows it)

Ev == JTrace[l]
NoGrammar == [ok |-> FALSE, G |-> [n |-> 1, start |-> 0, final |-> 0], A |-> {}]
NoLat == [ok |-> FALSE]

TInit == l = 1 /\ g = NoGrammar /\ res = <<>> /\ lat = NoLat /\ TLCSet(1, 0)

THeader == Ev.e = "Header" /\ g' = NoGrammar /\ res' = <<>> /\ lat' = NoLat

TGrammar == /\ Ev.e = "Grammar"
            /\ g' = IF Ev.ret = 0 /\ "arcs" \in DOMAIN Ev
                    THEN [ok |-> TRUE, G |-> [n |-> Ev.n, start |-> Ev.start, final |-> Ev.final], A |-> ToSet(Ev.arcs)]
                    ELSE g
            /\ UNCHANGED <<res, lat>>

TSkip == Ev.e \in {"Start", "Feed", "End", "SynHist"} /\ UNCHANGED <<g, res, lat>>

\* time-bearing segments of the first-best result, raw words
TResult == /\ Ev.e = "Result"
           /\ res' = SelectSeq(Ev.segs, LAMBDA s : s.k # 2)
           /\ UNCHANGED <<g, lat>>

RawLatOf(E) == [nodes |-> E.nodes,
        links |-> [i \in DOMAIN E.links |-> <<E.links[i][1] + 1, E.links[i][2] + 1, E.links[i][3], E.links[i][4]>>],
        start |-> E.start + 1, end |-> E.end + 1, frames |-> E.frames]

\* name the clause that fails (the driver uses it to key the violation)
Clause(name, cond) == IF cond THEN TRUE ELSE PrintT(<<"CLAUSE-FAILED", name, l>>) /\ FALSE

Lat0 == WithAdj(RawLatOf(Ev))

C11OK(Lat) == /\ Clause("again-same-object", Ev.again_same)     \* asking again without new audio: the same object
         /\ Clause("frames", Ev.frames = Ev.scored)        \* built over exactly the frames searched
         /\ Clause("one-start-one-end", OneStartOneEnd(Lat))
         /\ Clause("acyclic", Acyclic(Lat))
         /\ Clause("all-nodes-on-start-end-path", AllOnStartEndPath(Lat))
         /\ Clause("node-times", NodeTimesOK(Lat))
         /\ Clause("link-times", LinkTimesOK(Lat))
         /\ Clause("paths-are-grammar-paths", g.ok => PathsAreGrammarPaths(Lat, g.G, g.A))
         /\ Clause("best-seg-is-path", BestSegIsPath(Lat, res))

Abs(x) == IF x < 0 THEN -x ELSE x
\* E: a Lattice event, or the lattice an NBest event shows as it is after the walk (pre = clause-name prefix)
C12LatOK(Lat, E, pre) ==
    LET Eps == 4 * (Len(E.links) + 2) IN
    \* a lattice has a start-to-end path, so the best-path search must find one
    /\ Clause(pre \o "bestpath-exists", E.hasbest)
    /\ E.hasbest =>
         /\ Clause(pre \o "posterior-again-le-1", E.post2.best <= Eps /\ E.post2.maxlink <= Eps)
         /\ Clause(pre \o "bestpath-is-start-end-path",
                   IsStartEndPath(Lat, [i \in DOMAIN E.best.path |->
                                    <<E.best.path[i][1] + 1, E.best.path[i][2] + 1, E.best.path[i][3]>>]))
         /\ Clause(pre \o "bestpath-score-is-sum", SumAscr(E.best.path) + E.final_ascr = E.best.score)
         \* the highest-scoring start-to-end path
         /\ Clause(pre \o "bestpath-is-best", E.best.score - E.final_ascr = BestScore(Lat))
         /\ Clause(pre \o "bestpath-hyp-is-path", HypIsLatticePath(Lat, E.best.hyp))
         /\ Clause(pre \o "link-posterior-le-1", \A i \in DOMAIN E.post.links : E.post.links[i][5] <= Eps)
         /\ Clause(pre \o "bestpath-posterior-le-1", E.post.best <= Eps)
         /\ Clause(pre \o "forward-equals-backward", Abs(E.post.norm - E.post.bwd) <= Eps)

\* before anything walks the graph: what the public iterators delivered IS a graph over the nodes they delivered (a link
\* whose destination the node iterator never showed - a NULL or freed node - has index -1 in the dump)
LinksJoinNodes(E) == /\ \A i \in DOMAIN E.links : E.links[i][1] + 1 \in DOMAIN E.nodes /\ E.links[i][2] + 1 \in DOMAIN E.nodes
                     /\ E.start + 1 \in DOMAIN E.nodes /\ E.end + 1 \in DOMAIN E.nodes

TLattice == /\ Ev.e = "Lattice"
            /\ IF Ev.null THEN lat' = NoLat
               ELSE IF ~LinksJoinNodes(Ev) THEN Clause("links-join-nodes-of-the-lattice", FALSE) /\ lat' = NoLat
               ELSE LET LL == TLCEval(Lat0)
                    IN /\ (WHICH = "C11" => C11OK(LL)) /\ (WHICH = "C12" => C12LatOK(LL, Ev, ""))
                       /\ lat' = [ok |-> TRUE, L |-> LL]
            /\ UNCHANGED <<g, res>>

\* an NBest event may show the lattice as decoder_lattice() returns it after the walk: that is then the lattice the
\* list is judged against (a list taken from a stale lattice is not a list of its paths), and its best path and
\* posteriors, computed again after the walk, must be as sound as before
HasAfter == "after" \in DOMAIN Ev
AfterLat == TLCEval(WithAdj(RawLatOf(Ev.after)))
C12NBestOK == /\ Clause("nbest-non-increasing", NonIncreasing([i \in DOMAIN Ev.items |-> Ev.items[i].score] \o Ev.more))
              /\ IF HasAfter
                 THEN IF Ev.after.null THEN Clause("nbest-without-lattice", Ev.items = <<>>)
                      ELSE LET LL == AfterLat
                           IN /\ Clause("nbest-hyp-is-path-of-current-lattice",
                                        \A i \in DOMAIN Ev.items : HypIsLatticePath(LL, Ev.items[i].hyp))
                              /\ Clause("nbest-of-a-lattice-is-not-empty", Ev.items # <<>>)
                              /\ ("postfirst" \in DOMAIN Ev.after) =>
                                    LET P == Ev.after.postfirst
                                        Eps == 4 * (Len(Ev.after.links) + 2)
                                    IN /\ Clause("post-after-nbest-le-1", P.best <= Eps /\ P.maxlink <= Eps)
                                       /\ Clause("post-after-nbest-fwd-eq-bwd", Abs(P.norm - P.bwd) <= Eps)
                              /\ C12LatOK(LL, Ev.after, "after-nbest:")
                              /\ ("postwalk" \in DOMAIN Ev.after /\ Ev.after.hasbest) =>
                                    LET P == Ev.after.postwalk
                                        Eps == 4 * (Len(Ev.after.links) + 2)
                                    IN /\ Clause("postwalk-le-1", P.best <= Eps /\ P.maxlink <= Eps)
                                       /\ Clause("postwalk-fwd-eq-bwd", Abs(P.norm - P.bwd) <= Eps)
                                       /\ Clause("postwalk-same-total", Abs(P.norm - Ev.after.post.norm) <= Eps)
                 ELSE /\ Clause("nbest-hyp-is-lattice-path",
                                lat.ok => \A i \in DOMAIN Ev.items : HypIsLatticePath(lat.L, Ev.items[i].hyp))
                      /\ Clause("nbest-without-lattice", (~lat.ok) => Ev.items = <<>>)

TNBest == /\ Ev.e = "NBest"
          /\ (WHICH = "C12") => C12NBestOK
          /\ UNCHANGED <<g, res, lat>>

TNext == /\ l <= Len(JTrace)
         /\ (THeader \/ TGrammar \/ TSkip \/ TResult \/ TLattice \/ TNBest)
         /\ l' = l + 1
         /\ TLCSet(1, l)

TSpec == TInit /\ [][TNext]_<<l, g, res, lat>>

Accepted == IF TLCGet(1) = Len(JTrace) THEN TRUE
            ELSE PrintT(<<"REJECTED-AT", TLCGet(1) + 1>>) /\ FALSE
=============================================================================
