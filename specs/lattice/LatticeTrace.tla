---------------------------- MODULE LatticeTrace ----------------------------
(***************************************************************************)
(* Layer C for C11 and C12: validates lattices, best paths, posteriors and *)
(* N-best lists dumped from the real decoder through the public lattice    *)
(* API (harness/decoder/dec_drv.c) against LatticePred.                    *)
(* WHICH = "C11" | "C12" selects the clauses.                              *)
(***************************************************************************)
EXTENDS LatticePred, TLC, Json, IOUtils

JTrace == ndJsonDeserialize(IOEnv.TRACE)
WHICH == IOEnv.WHICH

VARIABLES l, g, res, lat
\* g: user's grammar; res: segmentation of the latest Result (same instant as the next Lattice event)
\* lat: latest lattice (for the N-best list that follows it)

Ev == JTrace[l]
NoGrammar == [ok |-> FALSE, G |-> [n |-> 1, start |-> 0, final |-> 0], A |-> {}]
NoLat == [ok |-> FALSE]

TInit == l = 1 /\ g = NoGrammar /\ res = <<>> /\ lat = NoLat /\ TLCSet(1, 0)

THeader == Ev.e = "Header" /\ g' = NoGrammar /\ res' = <<>> /\ lat' = NoLat

TGrammar == /\ Ev.e = "Grammar"
            /\ g' = IF Ev.ret = 0 /\ "arcs" \in DOMAIN Ev
                    THEN [ok |-> TRUE, G |-> [n |-> Ev.n, start |-> Ev.start, final |-> Ev.final], A |-> ToSet(Ev.arcs)]
                    ELSE g
            /\ UNCHANGED <<res, lat>>

TSkip == Ev.e \in {"Start", "Feed", "End", "SynHist"} /\ UNCHANGED <<g, res, lat>>

\* time-bearing segments of the first-best result, raw words
TResult == /\ Ev.e = "Result"
           /\ res' = SelectSeq(Ev.segs, LAMBDA s : s.k # 2)
           /\ UNCHANGED <<g, lat>>

RawLat == [nodes |-> Ev.nodes,
        links |-> [i \in DOMAIN Ev.links |-> <<Ev.links[i][1] + 1, Ev.links[i][2] + 1, Ev.links[i][3], Ev.links[i][4]>>],
        start |-> Ev.start + 1, end |-> Ev.end + 1, frames |-> Ev.frames]

\* name the clause that fails (the driver uses it to key the violation)
Clause(name, cond) == IF cond THEN TRUE ELSE PrintT(<<"CLAUSE-FAILED", name, l>>) /\ FALSE

Lat0 == WithAdj(RawLat)

C11OK(Lat) == /\ Clause("again-same-object", Ev.again_same)     \* asking again without new audio: the same object
         /\ Clause("frames", Ev.frames = Ev.scored)        \* built over exactly the frames searched
         /\ Clause("one-start-one-end", OneStartOneEnd(Lat))
         /\ Clause("acyclic", Acyclic(Lat))
         /\ Clause("all-nodes-on-start-end-path", AllOnStartEndPath(Lat))
         /\ Clause("node-times", NodeTimesOK(Lat))
         /\ Clause("link-times", LinkTimesOK(Lat))
         /\ Clause("paths-are-grammar-paths", g.ok => PathsAreGrammarPaths(Lat, g.G, g.A))
         /\ Clause("best-seg-is-path", BestSegIsPath(Lat, res))

Eps == 4 * (Len(Ev.links) + 2)
Abs(x) == IF x < 0 THEN -x ELSE x
C12LatOK(Lat) ==
    \* a lattice has a start-to-end path, so the best-path search must find one
    /\ Clause("bestpath-exists", Ev.hasbest)
    /\ Ev.hasbest =>
         /\ Clause("posterior-again-le-1", Ev.post2.best <= Eps /\ Ev.post2.maxlink <= Eps)
         /\ Clause("bestpath-is-start-end-path",
                   IsStartEndPath(Lat, [i \in DOMAIN Ev.best.path |->
                                    <<Ev.best.path[i][1] + 1, Ev.best.path[i][2] + 1, Ev.best.path[i][3]>>]))
         /\ Clause("bestpath-score-is-sum", SumAscr(Ev.best.path) + Ev.final_ascr = Ev.best.score)
         \* the highest-scoring start-to-end path
         /\ Clause("bestpath-is-best", Ev.best.score - Ev.final_ascr = BestScore(Lat))
         /\ Clause("bestpath-hyp-is-path", HypIsLatticePath(Lat, Ev.best.hyp))
         /\ Clause("link-posterior-le-1", \A i \in DOMAIN Ev.post.links : Ev.post.links[i][5] <= Eps)
         /\ Clause("bestpath-posterior-le-1", Ev.post.best <= Eps)
         /\ Clause("forward-equals-backward", Abs(Ev.post.norm - Ev.post.bwd) <= Eps)

TLattice == /\ Ev.e = "Lattice"
            /\ IF Ev.null THEN lat' = NoLat
               ELSE LET LL == TLCEval(Lat0)
                    IN /\ (WHICH = "C11" => C11OK(LL)) /\ (WHICH = "C12" => C12LatOK(LL))
                       /\ lat' = [ok |-> TRUE, L |-> LL]
            /\ UNCHANGED <<g, res>>

C12NBestOK == /\ Clause("nbest-non-increasing", NonIncreasing([i \in DOMAIN Ev.items |-> Ev.items[i].score] \o Ev.more))
              /\ Clause("nbest-hyp-is-lattice-path",
                        lat.ok => \A i \in DOMAIN Ev.items : HypIsLatticePath(lat.L, Ev.items[i].hyp))
              /\ Clause("nbest-without-lattice", (~lat.ok) => Ev.items = <<>>)

TNBest == /\ Ev.e = "NBest"
          /\ (WHICH = "C12") => C12NBestOK
          /\ UNCHANGED <<g, res, lat>>

TNext == /\ l <= Len(JTrace)
         /\ (THeader \/ TGrammar \/ TSkip \/ TResult \/ TLattice \/ TNBest)
         /\ l' = l + 1
         /\ TLCSet(1, l)

TSpec == TInit /\ [][TNext]_<<l, g, res, lat>>

Accepted == IF TLCGet(1) = Len(JTrace) THEN TRUE
            ELSE PrintT(<<"REJECTED-AT", TLCGet(1) + 1>>) /\ FALSE
=============================================================================
