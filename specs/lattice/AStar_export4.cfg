SPECIFICATION SpecExport
CONSTANTS
  N = 4
  Scores <- Scores3
  MaxPaths = 500
CONSTRAINT DumpDag
CHECK_DEADLOCK FALSE
