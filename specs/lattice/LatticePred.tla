---------------------------- MODULE LatticePred ----------------------------
(***************************************************************************)
(* Layer A for C11 (the word lattice is a well-formed, time-consistent     *)
(* graph of grammar paths) and C12 (N-best lists and lattice scores are    *)
(* ordered and probabilistically sane).                                    *)
(*                                                                         *)
(* A lattice L is a record                                                 *)
(*   nodes  sequence of [w, b, k, sf, fef, lef]  (w raw word, b base form, *)
(*          k = 0 word / 1 filler; "<s>" / "</s>" are the synthetic        *)
(*          boundary nodes the builder may add: users cannot write them)   *)
(*   links  sequence of <<from, to, ascr, ef>>   (node indices, 1-based)   *)
(*   start, end  node indices;  frames = number of frames searched         *)
(***************************************************************************)
(* For speed the record also carries adjacency maps computed ONCE per lattice by WithAdj (forced   *)
(* with TLCEval so that TLC does not re-scan the link list inside every recursion):               *)
(*   out[n] = set of links leaving n,  inn[n] = set of links entering n                           *)
EXTENDS Regular, TLC

Nodes(L) == DOMAIN L.nodes
LinkSet(L) == {L.links[i] : i \in DOMAIN L.links}
WithAdj(L) == LET ls == LinkSet(L)
              IN [nodes |-> L.nodes, links |-> L.links, start |-> L.start, end |-> L.end, frames |-> L.frames,
                  out |-> TLCEval([n \in DOMAIN L.nodes |-> {x \in ls : x[1] = n}]),
                  inn |-> TLCEval([n \in DOMAIN L.nodes |-> {x \in ls : x[2] = n}])]
Succ(L, n) == {l[2] : l \in L.out[n]}
Pred(L, n) == {l[1] : l \in L.inn[n]}

IsSynth(nd) == nd.w = "<s>" \/ nd.w = "</s>"
\* labels that carry no grammar word: fillers and the synthetic boundary nodes
Silent(nd) == nd.k = 1 \/ IsSynth(nd)

RECURSIVE FwdClose(_, _), BwdClose(_, _)
FwdClose(L, S) == LET T == S \cup UNION {Succ(L, n) : n \in S} IN IF T = S THEN S ELSE FwdClose(L, T)
BwdClose(L, S) == LET T == S \cup UNION {Pred(L, n) : n \in S} IN IF T = S THEN S ELSE BwdClose(L, T)

\* Kahn: repeatedly strip nodes without predecessors among the remaining ones
RECURSIVE Strip(_, _)
Strip(L, R) == LET free == {n \in R : Pred(L, n) \cap R = {}}
               IN IF free = {} THEN R ELSE Strip(L, R \ free)
Acyclic(L) == Strip(L, Nodes(L)) = {}

OneStartOneEnd(L) ==
    /\ L.start \in Nodes(L) /\ L.end \in Nodes(L)
    /\ \A n \in Nodes(L) : (Pred(L, n) = {}) <=> (n = L.start)
    /\ \A n \in Nodes(L) : (Succ(L, n) = {}) <=> (n = L.end)

AllOnStartEndPath(L) ==
    /\ FwdClose(L, {L.start}) = Nodes(L)
    /\ BwdClose(L, {L.end}) = Nodes(L)

\* a word instance occupies [sf, ef] with fef <= ef <= lef, all inside the utterance; a link joins an
\* instance ending at frame t to one starting at t+1.  Links out of a synthetic <s> / into a synthetic
\* </s> are epsilon links and carry no time.
NodeTimesOK(L) ==
    \A n \in Nodes(L) : LET nd == L.nodes[n]
                        IN IsSynth(nd) \/ (0 <= nd.sf /\ nd.sf <= nd.fef /\ nd.fef <= nd.lef /\ nd.lef < L.frames)
LinkTimesOK(L) ==
    \A l \in LinkSet(L) :
        LET f == L.nodes[l[1]]
            t == L.nodes[l[2]]
        IN \/ IsSynth(f) \/ IsSynth(t)
           \/ (t.sf = l[4] + 1 /\ f.fef <= l[4] /\ l[4] <= f.lef)

\* The labels along any path from the start node spell a path of the grammar from its start state:
\* product of the DAG with the subset automaton of G; no reachable pair may have lost all grammar states.
AfterNode(A, S, nd) == IF Silent(nd) THEN S ELSE Step(A, S, nd.b)
RECURSIVE PairClose2(_, _, _)
PairClose2(L, A, P) ==
    LET new == UNION {{<<l[2], AfterNode(A, p[2], L.nodes[l[2]])>> : l \in L.out[p[1]]} : p \in P}
        Q == P \cup new
    IN IF Q = P THEN P ELSE PairClose2(L, A, Q)

PathsAreGrammarPaths(L, G, A) ==
    LET S0 == AfterNode(A, EpsClose(A, {G.start}), L.nodes[L.start])
        P == PairClose2(L, A, {<<L.start, S0>>})
    IN \A p \in P : p[2] # {}

WellFormed(L) == /\ OneStartOneEnd(L) /\ Acyclic(L) /\ AllOnStartEndPath(L)
                 /\ NodeTimesOK(L) /\ LinkTimesOK(L)

\* The first-best segmentation (time-bearing segments [w, sf, ef] in order) appears as a path:
\* there are nodes n_1..n_m with matching word and start frame, consecutive ones joined by a link whose
\* end frame is the segment's, the first being the start node or entered from a synthetic <s>, and the
\* last segment's end frame lying within its node's range of end frames.  (The property asks for "a
\* path in the lattice", not a start-to-end path: a first-best that is one word instance spanning the
\* whole utterance is a node that cannot also be the end node, and is accepted as a one-node path.)
RECURSIVE SegPathFrom(_, _, _)
SegPathFrom(L, segs, cands) ==       \* cands: nodes that can play segs[1]
    IF cands = {} THEN FALSE
    ELSE IF Len(segs) = 1
    THEN \E n \in cands : L.nodes[n].fef <= segs[1].ef /\ segs[1].ef <= L.nodes[n].lef
    ELSE SegPathFrom(L, Tail(segs),
                     {l[2] : l \in {x \in UNION {L.out[c] : c \in cands} :
                                        x[4] = segs[1].ef /\ L.nodes[x[2]].w = segs[2].w /\ L.nodes[x[2]].sf = segs[2].sf}})
BestSegIsPath(L, segs) ==
    segs = <<>> \/
    LET firsts == {n \in Nodes(L) : /\ L.nodes[n].w = segs[1].w /\ L.nodes[n].sf = segs[1].sf
                                    /\ (n = L.start \/ (IsSynth(L.nodes[L.start]) /\ n \in Succ(L, L.start)))}
    IN SegPathFrom(L, segs, firsts)

-----------------------------------------------------------------------------
(* C12 *)
\* best total link score of a path from the start node to every node: max-plus over the DAG, one
\* topological layer (nodes all of whose predecessors are done) at a time
RECURSIVE BestLayers(_, _, _)
BestLayers(L, R, acc) ==
    LET free == {n \in R : Pred(L, n) \cap R = {}}
    IN IF free = {} THEN acc
       ELSE LET val(n) == LET ins == {l \in L.inn[n] : acc[l[1]] > NEGINF}
                          IN IF n = L.start THEN 0
                             ELSE IF ins = {} THEN NEGINF ELSE MaxOf({acc[l[1]] + l[3] : l \in ins})
            IN BestLayers(L, R \ free, TLCEval([n \in Nodes(L) |-> IF n \in free THEN val(n) ELSE acc[n]]))

BestScore(L) == BestLayers(L, Nodes(L), [n \in Nodes(L) |-> NEGINF])[L.end]

\* path = sequence of <<from, to, ascr>> listed from the LAST link back to the first (as best_prev chains)
IsStartEndPath(L, path) ==
    /\ path # <<>>
    /\ path[1][2] = L.end /\ path[Len(path)][1] = L.start
    /\ \A i \in DOMAIN path : path[i][1] \in Nodes(L) /\
                               \E l \in L.out[path[i][1]] : l[2] = path[i][2] /\ l[3] = path[i][3]
    /\ \A i \in DOMAIN path : i > 1 => path[i][2] = path[i-1][1]
RECURSIVE SumAscr(_)
SumAscr(path) == IF path = <<>> THEN 0 ELSE Head(path)[3] + SumAscr(Tail(path))

\* hyp (sequence of base-form words) is the word sequence of some start-to-end path
RECURSIVE ReadWords(_, _, _)
SilentClose(L, S) == LET RECURSIVE SC(_)
                         SC(T) == LET U == T \cup {m \in UNION {Succ(L, n) : n \in T} : Silent(L.nodes[m])}
                                  IN IF U = T THEN T ELSE SC(U)
                     IN SC(S)
ReadWords(L, S, ws) ==
    IF ws = <<>> THEN S
    ELSE ReadWords(L, SilentClose(L, {m \in UNION {Succ(L, n) : n \in S} : ~Silent(L.nodes[m]) /\ L.nodes[m].b = Head(ws)}), Tail(ws))

HypIsLatticePath(L, ws) ==
    LET s0 == IF Silent(L.nodes[L.start]) THEN SilentClose(L, {L.start})
              ELSE IF ws # <<>> /\ L.nodes[L.start].b = Head(ws) THEN SilentClose(L, {L.start}) ELSE {}
        rest == IF Silent(L.nodes[L.start]) THEN ws ELSE IF ws = <<>> THEN ws ELSE Tail(ws)
    IN s0 # {} /\ L.end \in ReadWords(L, s0, rest)

NonIncreasing(scores) == \A i \in DOMAIN scores : i > 1 => scores[i] <= scores[i-1]
=============================================================================
