SPECIFICATION Spec
CONSTANTS
  N = 4
  Scores <- Scores3
  MaxPaths = 2
INVARIANTS OutputsArePaths NonIncreasing AgendaSorted BestFirst FirstFromStartIsBest CompleteWhenNotTruncated NoDuplicates
CHECK_DEADLOCK FALSE
