SPECIFICATION Spec
CONSTANTS
  Family <- FamilyL
  NFrames = 2
  Deltas <- DeltasMC
  MaxHist = 5
  MaxLive = 2
  EndTieDev = FALSE
INVARIANTS PartialLatticeInv FinalLatticeInv
CHECK_DEADLOCK FALSE
