SPECIFICATION Spec
CONSTANTS
  N = 5
  Scores <- ScoresMC
  MaxPaths = 3
INVARIANTS OutputsArePaths NonIncreasing AgendaSorted BestFirst FirstFromStartIsBest CompleteWhenNotTruncated NoDuplicates
CHECK_DEADLOCK FALSE
