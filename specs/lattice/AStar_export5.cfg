SPECIFICATION SpecExport
CONSTANTS
  N = 5
  Scores <- Scores2
  MaxPaths = 500
CONSTRAINT DumpDag
CHECK_DEADLOCK FALSE
