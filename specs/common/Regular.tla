------------------------------ MODULE Regular ------------------------------
(***************************************************************************)
(* Shared core for every grammar-related property (C01 C05 C11 C13):       *)
(* finite-state grammars as plain data and the one definition of           *)
(* "sentence of the grammar" used everywhere.                              *)
(*                                                                         *)
(* A grammar G is a record                                                 *)
(*    [n |-> number of states (0..n-1), start |-> s, final |-> f,          *)
(*     arcs |-> a set or sequence of <<from, to, word, logp>>]             *)
(* where word = "" (the empty string) marks a null transition and logp is  *)
(* an integer log-probability (<= 0).  Words are strings.                  *)
(***************************************************************************)
EXTENDS Naturals, Integers, Sequences, FiniteSets

EPS == ""
NEGINF == -1000000000      \* "no path"; real scores stay far above it

(* Arcs as a set, whatever the representation.  ToSet is the cheap, explicit form. *)
ToSet(s) == {s[i] : i \in DOMAIN s}

States(G) == 0..(G.n - 1)

\* null-transition closure of a set of states (least fixed point, at most n rounds)
RECURSIVE EpsClose(_, _)
EpsClose(A, S) ==
    LET T == S \cup {a[2] : a \in {x \in A : x[1] \in S /\ x[3] = EPS}}
    IN IF T = S THEN S ELSE EpsClose(A, T)

\* one word
Step(A, S, w) == EpsClose(A, {a[2] : a \in {x \in A : x[1] \in S /\ x[3] = w}})

RECURSIVE Run(_, _, _)
Run(A, S, ws) == IF ws = <<>> THEN S ELSE Run(A, Step(A, S, Head(ws)), Tail(ws))

\* state set reached from the start state by reading ws
Reach(G, A, ws) == Run(A, EpsClose(A, {G.start}), ws)

\* ws is a sentence: some path from start to final spells it
Accepts(G, A, ws) == G.final \in Reach(G, A, ws)

\* ws labels some path leaving the start state (partial results, lattice paths)
IsPathPrefix(G, A, ws) == Reach(G, A, ws) # {}

OutWords(A, S) == {a[3] : a \in {x \in A : x[1] \in S /\ x[3] # EPS}}

\* all sentences of length <= k
RECURSIVE LangFrom(_, _, _, _)
LangFrom(A, final, S, k) ==
    (IF final \in S THEN {<<>>} ELSE {}) \cup
    (IF k = 0 THEN {}
     ELSE UNION {{<<w>> \o s : s \in LangFrom(A, final, Step(A, S, w), k - 1)} : w \in OutWords(A, S)})

Lang(G, A, k) == LangFrom(A, G.final, EpsClose(A, {G.start}), k)

(***************************************************************************)
(* Best (max-sum) log-probability of a word sequence: a max-plus automaton *)
(* run.  sc is a function state -> best score so far (NEGINF = unreached). *)
(***************************************************************************)
Max2(a, b) == IF a >= b THEN a ELSE b
MaxOf(S) == CHOOSE m \in S : \A x \in S : x <= m

\* relax null arcs to a fixed point (log-probs are <= 0, so cycles cannot improve a score)
RECURSIVE EpsRelax(_, _, _)
EpsRelax(A, N, sc) ==
    LET nx == [s \in N |->
                 MaxOf({sc[s]} \cup {sc[a[1]] + a[4] : a \in {x \in A : x[2] = s /\ x[3] = EPS /\ sc[x[1]] > NEGINF}})]
    IN IF nx = sc THEN sc ELSE EpsRelax(A, N, nx)

WordRelax(A, N, sc, w) ==
    [s \in N |-> MaxOf({NEGINF} \cup {sc[a[1]] + a[4] : a \in {x \in A : x[2] = s /\ x[3] = w /\ sc[x[1]] > NEGINF}})]

RECURSIVE BestRun(_, _, _, _)
BestRun(A, N, sc, ws) ==
    IF ws = <<>> THEN sc ELSE BestRun(A, N, EpsRelax(A, N, WordRelax(A, N, sc, Head(ws))), Tail(ws))

\* best log-probability with which G generates ws (NEGINF if it does not)
BestLogProb(G, A, ws) ==
    LET N == States(G)
        s0 == EpsRelax(A, N, [s \in N |-> IF s = G.start THEN 0 ELSE NEGINF])
    IN BestRun(A, N, s0, ws)[G.final]
=============================================================================
