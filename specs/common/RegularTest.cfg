INIT Init
NEXT Next
