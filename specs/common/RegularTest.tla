---- MODULE RegularTest ----
EXTENDS Regular, TLC
G == [n |-> 4, start |-> 0, final |-> 3,
      arcs |-> {<<0,1,"a",-1>>, <<1,2,"",-2>>, <<2,1,"",0>>, <<2,3,"b",-1>>, <<0,3,"",-5>>, <<1,1,"a",-3>>, <<0,1,"a",-2>>}]
A == G.arcs
ASSUME PrintT(Lang(G, A, 3))
ASSUME Accepts(G, A, <<"a","b">>) /\ ~Accepts(G, A, <<"b">>) /\ Accepts(G, A, <<>>)
ASSUME IsPathPrefix(G, A, <<"a","a">>) /\ ~IsPathPrefix(G, A, <<"b","a">>)
ASSUME PrintT(<<BestLogProb(G, A, <<"a","b">>), BestLogProb(G, A, <<>>), BestLogProb(G, A, <<"b">>), BestLogProb(G, A, <<"a","a","b">>)>>)
VARIABLE x
Init == x = 0
Next == UNCHANGED x
====
