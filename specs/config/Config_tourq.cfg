SPECIFICATION Spec
CONSTANTS
  D <- MCD
  Dev <- MCDev
  NamePool <- SmallNames
  StrPool <- SmallStr
  IntPool <- TinyInts
  FltPool <- TinyFlts
  PairPool <- SmallPairs
  MaxRc = 2
  MaxOps = 1000000
VIEW ViewTour
ACTION_CONSTRAINT DumpEdge
CHECK_DEADLOCK FALSE
