---------------------------- MODULE ConfigTrace ----------------------------
(***************************************************************************)
(* Recorded executions of the real configuration object (driver            *)
(* harness/config/cfg_drv.c) checked against ConfigStore: after every      *)
(* public call the driver records the answer and the complete observable   *)
(* store (type, raw value and the four typed getters of every parameter).  *)
(* The definition table is taken from the trace (the driver reads it back  *)
(* from the library's own structure), so the same module follows the       *)
(* harness's small table and the library's standard one.                   *)
(*                                                                         *)
(* Clauses named "ret:..." are the documented answer of a call (C09: a     *)
(* refused call says so and the object stays usable); "val:..." clauses    *)
(* are the value semantics of the extended specification.  Where the code  *)
(* knowingly differs from the header (ConfigStore's two deviations) either *)
(* behaviour is accepted.                                                  *)
(***************************************************************************)
EXTENDS ConfigStore, Json, IOUtils, TLC
J == INSTANCE JsonSyntax

JTrace == ndJsonDeserialize(IOEnv.TRACE)
VARIABLES l, alive, rc, st, D
vars == <<l, alive, rc, st, D>>
Ev == JTrace[l]
Clause(name, cond) == IF cond THEN TRUE ELSE PrintT(<<"CLAUSE-FAILED", name, l>>) /\ FALSE

S(x) == IF x.z THEN NullStr ELSE x.s
DefnOf(d) == [i \in DOMAIN d |-> [name |-> d[i].name.s, type |-> d[i].type, deflt |-> S(d[i].deflt)]]
AllDev == SUBSET {"unset-restores-string-default", "generic-float-via-bool"}

(* the recorded store shows exactly the model's store *)
EntryOK(Dn, s, x) ==
    LET n == x.name.s
    IN IF n \in DOMAIN s
       THEN LET t == TypeOf(Dn, n)
            IN /\ x.type = t /\ x.has
               /\ CASE t \in {"int", "bool"} -> x.i = s[n]
                    [] t = "flt" -> x.f.exact /\ x.f.k = s[n]
                    [] t = "str" -> S(x.s) = s[n]
               /\ x.gi = GetInt(Dn, s, n) /\ x.gb = GetBool(Dn, s, n)
               /\ x.gf.k = GetFloat(Dn, s, n) /\ S(x.gs) = GetStr(Dn, s, n)
       ELSE x.type = "none" /\ ~x.has /\ x.gi = 0 /\ x.gb = 0 /\ x.gf.k = 0 /\ x.gs.z
StoreShown(Dn, s) == /\ \A i \in DOMAIN Ev.store : EntryOK(Dn, s, Ev.store[i])
                     /\ \A n \in DOMAIN s : \E i \in DOMAIN Ev.store : Ev.store[i].name.s = n
Shape(a, r) == Clause("ret:alive-and-refcount", Ev.alive = a /\ Ev.rc = r)

TInit == l = 1 /\ alive = FALSE /\ rc = 0 /\ st = <<>> /\ D = <<>> /\ TLCSet(1, 0)

\* (the driver never creates a second object while one is alive: an Init event starts a new execution)
TNew == /\ Ev.e = "Init"
        /\ LET Dn == DefnOf(Ev.defn)
           IN /\ D' = Dn /\ st' = Fresh(Dn) /\ alive' = TRUE /\ rc' = 1
              /\ Shape(TRUE, 1) /\ Clause("val:defaults", StoreShown(Dn, Fresh(Dn)))
TRetain == /\ Ev.e = "Retain" /\ alive /\ Clause("ret:retain-returns-the-object", Ev.same)
           /\ rc' = rc + 1 /\ UNCHANGED <<alive, st, D>> /\ Shape(TRUE, rc + 1) /\ Clause("val:unchanged", StoreShown(D, st))
TFree == /\ Ev.e = "Free" /\ alive
         /\ Clause("ret:free-returns-remaining-references", Ev.ret = rc - 1)
         /\ rc' = rc - 1 /\ alive' = (rc > 1) /\ st' = (IF rc > 1 THEN st ELSE <<>>) /\ D' = D
         /\ Shape(rc > 1, rc - 1) /\ (rc > 1 => Clause("val:unchanged", StoreShown(D, st)))
TFreeNull == /\ Ev.e = "FreeNull" /\ Clause("ret:null-object-is-accepted", Ev.ret = 0 /\ ~Ev.retain)
             /\ UNCHANGED <<alive, rc, st, D>>

(* a setter: the answer and the store afterwards are those of one of the accepted readings *)
Setter(results) ==
    /\ alive /\ UNCHANGED <<alive, rc, D>>
    /\ Clause("ret:refused-or-accepted-as-documented", \E r \in results : r.ok = Ev.ok)
    /\ Clause("val:store-after-call", \E r \in results : r.ok = Ev.ok /\ StoreShown(D, r.st))
    /\ st' = (CHOOSE s \in {r.st : r \in {q \in results : q.ok = Ev.ok /\ StoreShown(D, q.st)}} : TRUE)
    /\ Shape(TRUE, rc)
TSetStr == Ev.e = "SetStr" /\ Setter({SetStr(D, st, Ev.n.s, S(Ev.v))})
TSetInt == Ev.e = "SetInt" /\ Setter({SetInt(D, st, Ev.n.s, Ev.v)})
TSetBool == Ev.e = "SetBool" /\ Setter({SetBool(D, st, Ev.n.s, Ev.v)})
TSetFloat == Ev.e = "SetFloat" /\ Setter({SetFloat(D, st, Ev.n.s, Ev.v)})
TUnset == Ev.e = "Unset" /\ Setter({Unset(D, st, Ev.n.s, dev) : dev \in AllDev})
TSetGen == Ev.e = "SetGen" /\ Setter({SetGeneric(D, st, Ev.n.s, Ev.kind, IF Ev.kind = "str" THEN S(Ev.sv) ELSE Ev.v, dev) : dev \in AllDev})
PairsOf(p) == [i \in DOMAIN p |-> <<p[i][1], p[i][2]>>]
TParse == /\ Ev.e = "Parse" /\ Clause("ret:parse-returns-the-object-or-null", Ev.same)
          /\ Setter({ApplyPairs(D, st, PairsOf(Ev.pairs))})
(* config_parse_json(NULL, text): a new object over the standard table, released again by the driver *)
TParseNew == /\ Ev.e = "ParseNew" /\ UNCHANGED <<alive, rc, st, D>>
             /\ IF Ev.ok
                THEN LET Dn == DefnOf(Ev.defn)
                         r == ApplyPairs(Dn, Fresh(Dn), PairsOf(Ev.pairs))
                     IN /\ Clause("ret:new-object-only-if-every-pair-accepted", r.ok)
                        /\ Clause("val:new-object-holds-the-pairs", StoreShown(Dn, r.st))
                ELSE Clause("ret:no-object-after-refusal", ~Ev.alive)

(* the serialisation: valid JSON (one object), one member per parameter that is not a NULL string, typed *)
NumText(v) == (IF v.neg THEN <<45>> ELSE <<>>) \o [i \in DOMAIN v.ip |-> v.ip[i] + 48]
              \o (IF v.fp = <<>> THEN <<>> ELSE <<46>> \o [i \in DOMAIN v.fp |-> v.fp[i] + 48])
MemberShown(m, v) ==
    CASE m.t = "n" -> v.t = "n" /\ ~v.ex /\ NumText(v) = m.txt
      [] m.t = "l" -> v.t = "l" /\ v.s = m.txt
      [] m.t = "s" -> v.t = "s" /\ v.s = m.txt
TSerialize ==
    /\ Ev.e = "Serialize" /\ alive /\ UNCHANGED <<alive, rc, st, D>>
    /\ Clause("ret:serialize-returns-text", ~Ev.text.z /\ Ev.again)
    /\ LET r == J!PVal(Ev.text.s, 1)
       IN /\ Clause("val:serialisation-is-valid-json", r.ok /\ r.v.t = "o" /\ J!SkipWS(Ev.text.s, r.p) = Len(Ev.text.s) + 1)
          /\ Clause("val:unique-keys", J!UniqueKeys(r.v))
          /\ Clause("val:every-written-parameter-shown-typed",
                    \A p \in Serialized(D, st) : J!HasKey(r.v, p[1]) /\ MemberShown(p[2], J!Get(r.v, p[1])))
          /\ Clause("val:null-strings-left-out", \A n \in DOMAIN st : IsNull(D, st, n) => ~J!HasKey(r.v, n))
    /\ Clause("val:unchanged", StoreShown(D, st)) /\ Shape(TRUE, rc)
TValidate == /\ Ev.e = "Validate" /\ alive /\ UNCHANGED <<alive, rc, st, D>>
             /\ Clause("ret:validate", Ev.ret = Validate(D, st)) /\ Clause("val:unchanged", StoreShown(D, st))

TNext == /\ l <= Len(JTrace)
         /\ (TNew \/ TRetain \/ TFree \/ TFreeNull \/ TSetStr \/ TSetInt \/ TSetBool \/ TSetFloat \/ TUnset \/ TSetGen
             \/ TParse \/ TParseNew \/ TSerialize \/ TValidate)
         /\ l' = l + 1
         /\ TLCSet(1, l)
TSpec == TInit /\ [][TNext]_vars
Accepted == IF TLCGet(1) = Len(JTrace) THEN TRUE
            ELSE PrintT(<<"REJECTED-AT", TLCGet(1) + 1>>) /\ FALSE
=============================================================================
