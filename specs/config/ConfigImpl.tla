----------------------------- MODULE ConfigImpl -----------------------------
(***************************************************************************)
(* The configuration object as a state machine: one object with a          *)
(* reference count; every public call is one action whose effect is the    *)
(* ConfigStore operator and whose observable answer is kept in `last`.     *)
(* Its state graph supplies the call histories executed on the real        *)
(* library (checks/c09.py, stage "config"), and TLC checks on it that the  *)
(* documented coercions keep the store well typed, that a refused call     *)
(* changes nothing, and the two round-trip laws of the JSON form.          *)
(***************************************************************************)
EXTENDS ConfigStore, TLC

CONSTANTS D,          \* definition table
          Dev,        \* deviations of the code from the header that are modelled (see ConfigStore)
          NamePool, StrPool, IntPool, FltPool, PairPool, MaxRc, MaxOps

VARIABLES alive, rc, st, nops, last
vars == <<alive, rc, st, nops, last>>

Obs(op, args, ok) == [op |-> op, args |-> args, ok |-> ok]

Init == alive = FALSE /\ rc = 0 /\ st = <<>> /\ nops = 0 /\ last = Obs("none", <<>>, TRUE)

Tick == nops < MaxOps /\ nops' = nops + 1

New == ~alive /\ Tick /\ alive' = TRUE /\ rc' = 1 /\ st' = Fresh(D) /\ last' = Obs("init", <<>>, TRUE)
Retain == alive /\ rc < MaxRc /\ Tick /\ rc' = rc + 1 /\ UNCHANGED <<alive, st>> /\ last' = Obs("retain", <<>>, TRUE)
Free == alive /\ Tick /\ rc' = rc - 1 /\ alive' = (rc > 1) /\ st' = (IF rc > 1 THEN st ELSE <<>>)
        /\ last' = Obs("free", <<rc - 1>>, TRUE)

Do(op, args, r) == alive /\ Tick /\ st' = r.st /\ UNCHANGED <<alive, rc>> /\ last' = Obs(op, args, r.ok)

DoSetStr == \E n \in NamePool, s \in StrPool : Do("setstr", <<n, s>>, SetStr(D, st, n, s))
DoSetInt == \E n \in NamePool, i \in IntPool : Do("setint", <<n, i>>, SetInt(D, st, n, i))
DoSetFloat == \E n \in NamePool, k \in FltPool : Do("setfloat", <<n, k>>, SetFloat(D, st, n, k))
DoSetBool == \E n \in NamePool, b \in {0, 1, 5} : Do("setbool", <<n, b>>, SetBool(D, st, n, b))
DoUnset == \E n \in NamePool : Do("unset", <<n>>, Unset(D, st, n, Dev))
DoSetGeneric ==
    \E n \in NamePool :
       \/ Do("setgen", <<n, "null", 0>>, SetGeneric(D, st, n, "null", 0, Dev))
       \/ \E s \in StrPool \ {NullStr} : Do("setgen", <<n, "str", s>>, SetGeneric(D, st, n, "str", s, Dev))
       \/ \E i \in IntPool : Do("setgen", <<n, "int", i>>, SetGeneric(D, st, n, "int", i, Dev))
       \/ \E b \in {0, 1} : Do("setgen", <<n, "bool", b>>, SetGeneric(D, st, n, "bool", b, Dev))
       \/ \E k \in FltPool : Do("setgen", <<n, "flt", k>>, SetGeneric(D, st, n, "flt", k, Dev))
DoParse == \E i \in DOMAIN PairPool : Do("parse", <<PairPool[i]>>, ApplyPairs(D, st, PairPool[i]))
DoSerialize == Do("serialize", <<>>, [ok |-> TRUE, st |-> st])
DoValidate == Do("validate", <<Validate(D, st)>>, [ok |-> Validate(D, st) = 0, st |-> st])

Next == New \/ Retain \/ Free \/ DoSetStr \/ DoSetInt \/ DoSetFloat \/ DoSetBool \/ DoUnset \/ DoSetGeneric
        \/ DoParse \/ DoSerialize \/ DoValidate
Spec == Init /\ [][Next]_vars

-----------------------------------------------------------------------------
TypeOK == alive => (rc >= 1 /\ StoreOK(D, st) /\ \A n \in DOMAIN st : TypeOf(D, n) = "flt" => InG8(st[n]))
DeadIsEmpty == ~alive => (rc = 0 /\ st = <<>>)
RoundTrip == alive => (RoundTripSelf(D, st) /\ RoundTripFresh(D, st))
(* a refused call changes nothing, except a JSON update, which keeps the pairs before the refused one *)
RefusedChangesNothing == [][(alive /\ alive' /\ ~last'.ok /\ last'.op # "parse") => st' = st]_vars
(* the typed getters agree with the store *)
Getters == alive => \A n \in DOMAIN st :
              /\ TypeOf(D, n) \in {"int", "bool"} => GetInt(D, st, n) = st[n]
              /\ TypeOf(D, n) = "str" => GetStr(D, st, n) = st[n] /\ GetInt(D, st, n) = 0
              /\ GetBool(D, st, n) \in {0, 1}
(* no string parameter ever holds the empty string: it could not be written back *)
NoEmptyString == alive => \A n \in DOMAIN st : TypeOf(D, n) = "str" => st[n] # <<>>

View == <<alive, rc, st, nops>>
ViewTour == <<alive, rc, st>>
=============================================================================
