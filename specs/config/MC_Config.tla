----------------------------- MODULE MC_Config -----------------------------
EXTENDS ConfigImpl, Json

(* The definition table the harness gives to config_init (harness/config/cfg_drv.c emits the same table in  *)
(* the header of every trace, read back from the library's own structures).                                  *)
N(x) == x
nI == <<105>>            \* "i"
nF == <<102>>            \* "f"
nB == <<98>>             \* "b"
nS == <<115>>            \* "s"
nT == <<116>>            \* "t"
nJ == <<106, 115, 103, 102>>     \* "jsgf"
nG == <<102, 115, 103>>          \* "fsg"
nX == <<120, 120>>               \* "xx" - not defined
nBad == <<122>>                  \* "z": its default "" cannot be read, so the parameter does not exist

MCD == << [name |-> nI, type |-> "int",  deflt |-> <<51>>],                  \* "3"
          [name |-> nF, type |-> "flt",  deflt |-> <<49, 46, 53>>],          \* "1.5"
          [name |-> nB, type |-> "bool", deflt |-> <<110, 111>>],            \* "no"
          [name |-> nS, type |-> "str",  deflt |-> NullStr],
          [name |-> nT, type |-> "str",  deflt |-> <<108, 105, 118, 101>>],  \* "live"
          [name |-> nJ, type |-> "str",  deflt |-> NullStr],
          [name |-> nG, type |-> "str",  deflt |-> NullStr],
          [name |-> nBad, type |-> "int", deflt |-> <<>>] >>

MCDev == {"unset-restores-string-default", "generic-float-via-bool"}
MCDevNone == {}

sYes == <<121, 101, 115>>        \* "yes"
sTrue == <<116, 114, 117, 101>>  \* "true"
sNo == <<78, 111>>               \* "No"
s0 == <<48>>
s12x == <<49, 50, 97, 98>>       \* "12ab"
sNeg == <<32, 45, 51>>           \* " -3"
sAbc == <<97, 98, 99>>           \* "abc"
sEmpty == <<>>
s1p5 == <<49, 46, 53>>           \* "1.5"
sNegQ == <<45, 48, 46, 50, 53>>  \* "-0.25"
sDot5 == <<46, 53>>              \* ".5"
s1e2 == <<49, 101, 50>>          \* "1e2"
sEsc == <<97, 34, 92, 10, 9, 98>>   \* a " \ newline tab b

SmallNames == {nI, nS, nX}
SmallStr == {NullStr, sYes, sEmpty, s12x}
MidNames == {nI, nF, nB, nS, nT, nX, nBad}
MidStr == {NullStr, sYes, sNo, s0, s12x, sNeg, sAbc, sEmpty, s1p5, sNegQ, sDot5, s1e2, sEsc}
BigInts == {-3, 0, 1, 7, 250}
BigFlts == {0, 12, -2, 8, 7999, -7, -12}
TinyInts == {0, 7}
TinyFlts == {12, -7}

Pairs1 == << <<nI, s12x>>, <<nS, sAbc>> >>
Pairs2 == << <<nS, sYes>>, <<nX, s0>>, <<nI, s0>> >>            \* unknown key in the middle: prefix applied
Pairs3 == << <<nB, sTrue>>, <<nI, sAbc>> >>                     \* unreadable integer: refused after b was set
Pairs4 == << <<nJ, sAbc>>, <<nG, sAbc>> >>                      \* both grammars: validate says -1
Pairs5 == << <<nF, sNegQ>>, <<nT, sEsc>>, <<nS, sEmpty>> >>     \* empty string refused
MCPairs == <<Pairs1, Pairs2, Pairs3, Pairs4, Pairs5>>
SmallPairs == <<Pairs1, Pairs2>>

(* state-graph export for the tours (tools/vlib/tours.py) *)
DumpEdge == PrintT(<<"EDGE", ToJson([f |-> ToString(<<alive, rc, st>>), a |-> last', t |-> ToString(<<alive', rc', st'>>)])>>)
=============================================================================
