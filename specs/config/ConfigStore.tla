----------------------------- MODULE ConfigStore -----------------------------
(***************************************************************************)
(* The configuration object (include/soundswallower/configuration.h,       *)
(* src/config.c) as a typed store with the documented coercions.           *)
(*                                                                         *)
(* Strings are sequences of byte codes; the C NULL string is NullStr.      *)
(* A parameter value is                                                    *)
(*    int  : an integer                 flt : an integer number of EIGHTHS *)
(*    bool : 0 or 1                     str : a byte sequence or NullStr   *)
(* Floats are restricted to k/8 with |k/8| < 1000, which "%g" prints       *)
(* exactly, so that the text coercions can be stated exactly.              *)
(*                                                                         *)
(* This part is pure: operators from a store to a store.  ConfigImpl turns *)
(* it into a state machine, ConfigTrace checks recorded executions.        *)
(***************************************************************************)
EXTENDS Integers, Sequences, FiniteSets

NullStr == <<-1>>
Types == {"int", "flt", "bool", "str"}

IsDigit(c) == c >= 48 /\ c <= 57
IsSpace(c) == c \in {32, 9, 10, 11, 12, 13}
At(s, p) == IF p >= 1 /\ p <= Len(s) THEN s[p] ELSE -1

RECURSIVE SkipSpace(_, _)
SkipSpace(s, p) == IF IsSpace(At(s, p)) THEN SkipSpace(s, p + 1) ELSE p

RECURSIVE DigitRun(_, _, _, _)
\* value and count of the digit run starting at p: [v, n, p]
DigitRun(s, p, v, n) == IF IsDigit(At(s, p)) THEN DigitRun(s, p + 1, v * 10 + (s[p] - 48), n + 1) ELSE [v |-> v, n |-> n, p |-> p]

RECURSIVE Pow10(_)
Pow10(k) == IF k <= 0 THEN 1 ELSE 10 * Pow10(k - 1)

(* sscanf(str, "%ld"): optional blanks, optional sign, at least one digit; the rest is ignored *)
ScanLong(s) ==
    LET p0 == SkipSpace(s, 1)
        sg == At(s, p0)
        p1 == IF sg \in {43, 45} THEN p0 + 1 ELSE p0
        d  == DigitRun(s, p1, 0, 0)
    IN IF d.n = 0 THEN [ok |-> FALSE, v |-> 0] ELSE [ok |-> TRUE, v |-> IF sg = 45 THEN -d.v ELSE d.v]

(* atof(str) for decimal spellings: blanks, sign, digits [. digits] [e [sign] digits]; no digits at all gives 0.  *)
(* The result is in eighths; exact says whether the value is a whole number of eighths (the pools only hold such). *)
Atof8(s) ==
    LET p0 == SkipSpace(s, 1)
        sg == At(s, p0)
        p1 == IF sg \in {43, 45} THEN p0 + 1 ELSE p0
        ip == DigitRun(s, p1, 0, 0)
        hasdot == At(s, ip.p) = 46
        fp == IF hasdot THEN DigitRun(s, ip.p + 1, 0, 0) ELSE [v |-> 0, n |-> 0, p |-> ip.p]
        nodigits == ip.n = 0 /\ fp.n = 0
        pe == fp.p
        hasexp == ~nodigits /\ At(s, pe) \in {69, 101}
        esg == At(s, pe + 1)
        pe1 == IF esg \in {43, 45} THEN pe + 2 ELSE pe + 1
        ex == IF hasexp THEN DigitRun(s, pe1, 0, 0) ELSE [v |-> 0, n |-> 0, p |-> pe]
        e10 == (IF hasexp /\ ex.n > 0 THEN (IF esg = 45 THEN -ex.v ELSE ex.v) ELSE 0) - fp.n
        mant == ip.v * Pow10(fp.n) + fp.v                  \* value = mant * 10^e10
        num == IF e10 >= 0 THEN mant * Pow10(e10) * 8 ELSE mant * 8
        den == IF e10 >= 0 THEN 1 ELSE Pow10(-e10)
        mag == num \div den
    IN IF nodigits THEN [v |-> 0, exact |-> TRUE]
       ELSE [v |-> IF sg = 45 THEN -mag ELSE mag, exact |-> num % den = 0]

(* "%ld" *)
RECURSIVE NatDigits(_)
NatDigits(n) == IF n < 10 THEN <<48 + n>> ELSE Append(NatDigits(n \div 10), 48 + (n % 10))
FmtLong(i) == IF i < 0 THEN <<45>> \o NatDigits(-i) ELSE NatDigits(i)

(* "%g" of k/8 for |k/8| < 1000: at most six significant digits, so the shortest exact decimal *)
FmtG8(k) ==
    LET a == IF k < 0 THEN -k ELSE k
        whole == a \div 8
        milli == (a % 8) * 125                                   \* three decimals, exact
        d1 == milli \div 100  d2 == (milli \div 10) % 10  d3 == milli % 10
        frac == IF milli = 0 THEN <<>>
                ELSE IF d3 # 0 THEN <<46, 48 + d1, 48 + d2, 48 + d3>>
                ELSE IF d2 # 0 THEN <<46, 48 + d1, 48 + d2>>
                ELSE <<46, 48 + d1>>
    IN (IF k < 0 THEN <<45>> ELSE <<>>) \o NatDigits(whole) \o frac
InG8(k) == k > -8000 /\ k < 8000

Zero(t) == IF t = "str" THEN NullStr ELSE 0

(* anytype_from_str: NULL clears the value; the empty string is refused for every type *)
FromStr(t, s) ==
    IF s = NullStr THEN [ok |-> TRUE, v |-> Zero(t)]
    ELSE IF s = <<>> THEN [ok |-> FALSE, v |-> 0]
    ELSE CASE t = "int"  -> ScanLong(s)
           [] t = "flt"  -> [ok |-> TRUE, v |-> Atof8(s).v]
           [] t = "bool" -> IF s[1] \in {121, 116, 89, 84, 49} THEN [ok |-> TRUE, v |-> 1]       \* y t Y T 1
                            ELSE IF s[1] \in {110, 102, 78, 70, 48} THEN [ok |-> TRUE, v |-> 0]  \* n f N F 0
                            ELSE [ok |-> FALSE, v |-> 0]
           [] t = "str"  -> [ok |-> TRUE, v |-> s]

FromInt(t, i) ==
    CASE t = "int" -> i [] t = "flt" -> i * 8 [] t = "bool" -> (IF i # 0 THEN 1 ELSE 0) [] t = "str" -> FmtLong(i)

Trunc8(k) == IF k >= 0 THEN k \div 8 ELSE -((-k) \div 8)                 \* (long)f truncates toward zero
FromFloat(t, k) ==
    CASE t = "int" -> Trunc8(k) [] t = "flt" -> k [] t = "bool" -> (IF k # 0 THEN 1 ELSE 0) [] t = "str" -> FmtG8(k)

-----------------------------------------------------------------------------
(* A definition table D is a sequence of [name, type, deflt]; deflt is a string or NullStr.            *)
(* config_init keeps exactly the parameters whose default can be read (an unreadable default is logged  *)
(* and the parameter left out).                                                                          *)
Names(D) == {D[i].name : i \in DOMAIN D}
Entry(D, n) == D[CHOOSE i \in DOMAIN D : D[i].name = n /\ \A j \in 1..(i - 1) : D[j].name # n]
Known(D) == {n \in Names(D) : FromStr(Entry(D, n).type, Entry(D, n).deflt).ok}
TypeOf(D, n) == Entry(D, n).type
Default(D, n) == FromStr(Entry(D, n).type, Entry(D, n).deflt).v
Fresh(D) == [n \in Known(D) |-> Default(D, n)]

ValueOK(t, v) ==
    CASE t = "int" -> v \in Int [] t = "flt" -> v \in Int [] t = "bool" -> v \in {0, 1}
      [] t = "str" -> v = NullStr \/ (v # <<>> /\ \A i \in DOMAIN v : v[i] >= 1 /\ v[i] <= 255)
StoreOK(D, st) == DOMAIN st = Known(D) /\ \A n \in DOMAIN st : ValueOK(TypeOf(D, n), st[n])

(* Every setter answers [ok, st]: ok = a non-NULL return; a refused call leaves the store as it was. *)
Refuse(st) == [ok |-> FALSE, st |-> st]
Assign(st, n, v) == [ok |-> TRUE, st |-> [st EXCEPT ![n] = v]]

SetStr(D, st, n, s) ==
    IF n \notin DOMAIN st THEN Refuse(st)
    ELSE LET r == FromStr(TypeOf(D, n), s) IN IF r.ok THEN Assign(st, n, r.v) ELSE Refuse(st)
SetInt(D, st, n, i) == IF n \notin DOMAIN st THEN Refuse(st) ELSE Assign(st, n, FromInt(TypeOf(D, n), i))
SetFloat(D, st, n, k) == IF n \notin DOMAIN st THEN Refuse(st) ELSE Assign(st, n, FromFloat(TypeOf(D, n), k))
SetBool(D, st, n, b) == SetInt(D, st, n, IF b # 0 THEN 1 ELSE 0)

(* config_unset.  The header says "for string parameters this sets the value to NULL"; the code restores the   *)
(* default for every type (a string default may be non-NULL).  Dev = "unset-restores-string-default" selects     *)
(* what the code does.                                                                                          *)
Unset(D, st, n, Dev) ==
    IF n \notin DOMAIN st THEN Refuse(st)
    ELSE IF TypeOf(D, n) = "str" /\ "unset-restores-string-default" \notin Dev THEN Assign(st, n, NullStr)
    ELSE Assign(st, n, Default(D, n))

(* config_set(config, name, val, t): val = NULL unsets; otherwise "coerce the value to the proper type".        *)
(* The code hands a floating value to config_set_bool (Dev "generic-float-via-bool"): it is truncated to int    *)
(* and then only its truth value survives.                                                                      *)
SetGeneric(D, st, n, kind, v, Dev) ==
    CASE kind = "null" -> Unset(D, st, n, Dev)
      [] kind = "str"  -> SetStr(D, st, n, v)
      [] kind = "int"  -> SetInt(D, st, n, v)
      [] kind = "bool" -> SetBool(D, st, n, v)
      [] kind = "flt"  -> IF "generic-float-via-bool" \in Dev THEN SetBool(D, st, n, Trunc8(v)) ELSE SetFloat(D, st, n, v)

(* config_parse_json on an existing object: config_set_str for every key/value pair in order; the first refusal  *)
(* stops it, NULL is returned, and the pairs before it stay applied.                                             *)
RECURSIVE ApplyPairs(_, _, _)
ApplyPairs(D, st, pairs) ==
    IF pairs = <<>> THEN [ok |-> TRUE, st |-> st]
    ELSE LET r == SetStr(D, st, pairs[1][1], pairs[1][2])
         IN IF r.ok THEN ApplyPairs(D, r.st, Tail(pairs)) ELSE Refuse(r.st)

(* What config_serialize_json must contain: one member per parameter except NULL strings, typed.               *)
Member(t, v) ==
    CASE t = "int"  -> [t |-> "n", txt |-> FmtLong(v)]
      [] t = "flt"  -> [t |-> "n", txt |-> FmtG8(v)]
      [] t = "bool" -> [t |-> "l", txt |-> IF v = 1 THEN "true" ELSE "false"]
      [] t = "str"  -> [t |-> "s", txt |-> v]
IsNull(D, st, n) == TypeOf(D, n) = "str" /\ st[n] = NullStr
Written(D, st) == {m \in DOMAIN st : ~IsNull(D, st, m)}
Serialized(D, st) == {<<n, Member(TypeOf(D, n), st[n])>> : n \in Written(D, st)}
(* ... and what reading it back does: every member as the string a JSON reader hands to config_set_str *)
AsPairs(D, st) == {<<n, IF TypeOf(D, n) = "bool" THEN (IF st[n] = 1 THEN <<116, 114, 117, 101>> ELSE <<102, 97, 108, 115, 101>>)
                        ELSE IF TypeOf(D, n) = "int" THEN FmtLong(st[n])
                        ELSE IF TypeOf(D, n) = "flt" THEN FmtG8(st[n]) ELSE st[n]>> : n \in Written(D, st)}
RECURSIVE ApplySet(_, _, _)
ApplySet(D, st, ps) == IF ps = {} THEN st
                       ELSE LET p == CHOOSE q \in ps : TRUE IN ApplySet(D, SetStr(D, st, p[1], p[2]).st, ps \ {p})
(* Round trip: reading the serialisation into the object itself changes nothing; into a fresh object it        *)
(* reproduces every parameter that is not a NULL string.                                                        *)
RoundTripSelf(D, st) == ApplySet(D, st, AsPairs(D, st)) = st
RoundTripFresh(D, st) == LET r == ApplySet(D, Fresh(D), AsPairs(D, st))
                         IN \A n \in Written(D, st) : r[n] = st[n]

(* typed getters: the documented answer for a wrong type or unknown name is 0 / NULL *)
GetInt(D, st, n) == IF n \in DOMAIN st /\ TypeOf(D, n) \in {"int", "bool"} THEN st[n] ELSE 0
GetBool(D, st, n) == IF GetInt(D, st, n) # 0 THEN 1 ELSE 0
GetFloat(D, st, n) == IF n \in DOMAIN st /\ TypeOf(D, n) = "flt" THEN st[n] ELSE 0
GetStr(D, st, n) == IF n \in DOMAIN st /\ TypeOf(D, n) = "str" THEN st[n] ELSE NullStr

(* config_validate: at most one kind of grammar *)
Validate(D, st) == IF Cardinality({n \in {<<106, 115, 103, 102>>, <<102, 115, 103>>} : n \in DOMAIN st /\ TypeOf(D, n) = "str" /\ st[n] # NullStr}) > 1
                   THEN -1 ELSE 0
=============================================================================
