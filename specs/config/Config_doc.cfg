SPECIFICATION Spec
CONSTANTS
  D <- MCD
  Dev <- MCDevNone
  NamePool <- MidNames
  StrPool <- MidStr
  IntPool <- BigInts
  FltPool <- BigFlts
  PairPool <- MCPairs
  MaxRc = 2
  MaxOps = 3
INVARIANTS TypeOK DeadIsEmpty RoundTrip Getters NoEmptyString
PROPERTY RefusedChangesNothing
CHECK_DEADLOCK FALSE
