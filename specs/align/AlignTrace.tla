------------------------------ MODULE AlignTrace ------------------------------
(* Layer C for C04: alignments recorded from the real decoder (final and partial, after streaming,    *)
(* after buffered search) validated against AlignPred, together with the segmentation of the same    *)
(* result and the frames the second pass rescored.                                                   *)
EXTENDS AlignPred, Json, IOUtils

JTrace == ndJsonDeserialize(IOEnv.TRACE)
VARIABLES l, res, cfg
Ev == JTrace[l]

Clause(name, cond) == IF cond THEN TRUE ELSE PrintT(<<"CLAUSE-FAILED", name, l>>) /\ FALSE

TInit == l = 1 /\ res = [segs |-> <<>>, scored |-> 0, segsnull |-> TRUE] /\ cfg = [exact |-> FALSE, lower |-> FALSE] /\ TLCSet(1, 0)

\* score clause applies only where both passes saw the same frame scores (all senones computed);
\* equality with open beams, ">=" otherwise
THeader == /\ Ev.e = "Header"
           /\ cfg' = [exact |-> FALSE, lower |-> Ev.ok /\ "compallsen" \in DOMAIN Ev.config]
           /\ res' = [segs |-> <<>>, scored |-> 0, segsnull |-> TRUE]

\* the beams the search really uses: "open" = log-zero thresholds, nothing can be pruned
Open(b) == b < -400000
TGrammar == /\ Ev.e = "Grammar"
            /\ cfg' = [cfg EXCEPT !.exact = cfg.lower /\ "beam" \in DOMAIN Ev /\ Open(Ev.beam) /\ Open(Ev.pbeam) /\ Open(Ev.wbeam)]
            /\ UNCHANGED res

TResult == /\ Ev.e = "Result"
           /\ res' = [segs |-> Ev.segs, scored |-> Ev.scored, segsnull |-> Ev.segsnull]
           /\ UNCHANGED cfg

AlignOK == /\ Clause("words-are-segments", WordsAreSegments(Ev, res.segs))
           /\ Clause("phones-are-pronunciation", PhonesArePronunciation(Ev))
           /\ Clause("states-are-emitting-states", StatesAreEmittingStates(Ev))
           \* ... of the model the model definition has for the phone between its neighbours in the alignment (silence
           \* before the first and after the last word)
           /\ Clause("models-are-those-of-the-neighbouring-phones", Ev.flat_sseq = Ev.ctx_sseq)
           /\ Clause("children-partition-parents", ChildrenPartitionParents(Ev))
           \* a child iterator moved to another parent's children (alignment_iter_goto) delivers that parent's children
           /\ Clause("children-after-goto", Ev.goto_same)
           /\ Clause("levels-contiguous-from-zero", EveryLevelContiguous(Ev))
           /\ Clause("parent-score-is-sum", ParentScoreIsSum(Ev))
           \* the second pass replays frames 0,1,2,... once each, in order, and no more than were searched
           \* (nothing at all when the previous alignment is reused)
           /\ Clause("second-pass-frames", (Ev.reused /\ Ev.rescored = 0) \/ (Ev.rescored <= res.scored /\ Ev.in_order))
           /\ Clause("word-score-exact", cfg.exact => WordScoresExact(Ev, res.segs, Ev.wip, Ev.pip))
           /\ Clause("word-score-at-least", (cfg.lower /\ ~cfg.exact) => WordScoresAtLeast(Ev, res.segs, Ev.wip, Ev.pip))

\* (a NULL alignment says nothing: the second pass may be impossible or may fail to reach the end)
TAlign == /\ Ev.e = "Align"
          /\ IF Ev.null THEN TRUE ELSE AlignOK
          /\ UNCHANGED <<res, cfg>>

TNext == /\ l <= Len(JTrace)
         /\ (THeader \/ TGrammar \/ TResult \/ TAlign)
         /\ l' = l + 1
         /\ TLCSet(1, l)
TSpec == TInit /\ [][TNext]_<<l, res, cfg>>
Accepted == IF TLCGet(1) = Len(JTrace) THEN TRUE
            ELSE PrintT(<<"REJECTED-AT", TLCGet(1) + 1>>) /\ FALSE
=============================================================================
