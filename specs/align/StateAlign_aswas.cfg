SPECIFICATION Spec
CONSTANTS
  Layouts <- LaySmall
  E = 2
  Deltas <- DeltasMC
  ScoreFirstState = FALSE
INVARIANTS StatesPartition WordsKeepBoundaries TotalIsPathScore WordsSumToTotal EntriesArePath NeverFailsOnCompletePath
CHECK_DEADLOCK FALSE
