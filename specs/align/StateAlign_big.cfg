SPECIFICATION Spec
CONSTANTS
  Layouts <- LayBig
  E = 3
  Deltas <- DeltasMC
  ScoreFirstState = TRUE
INVARIANTS StatesPartition WordsKeepBoundaries TotalIsPathScore WordsSumToTotal EntriesArePath NeverFailsOnCompletePath
CHECK_DEADLOCK FALSE
