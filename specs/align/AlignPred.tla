------------------------------ MODULE AlignPred ------------------------------
(***************************************************************************)
(* Layer A for C04: forced alignment is a consistent words > phones >      *)
(* states hierarchy.  An alignment is what the public iterators give:      *)
(*   words   sequence of [n, s, d, a, c]  name, start, duration, score,    *)
(*           children = phones [n, s, d, a, ci, sseq, c], whose children   *)
(*           are states [n, s, d, a]                                       *)
(*   flat_phones / flat_states   the per-level iterators, <<s, d, a>>      *)
(*   prons   dictionary pronunciation (phone names) of each word           *)
(*   nstate  number of emitting states of the model's HMMs                 *)
(* segs is the first-pass segmentation of the same result.                 *)
(***************************************************************************)
EXTENDS Naturals, Integers, Sequences, TLC

RECURSIVE SumA(_)
SumA(xs) == IF xs = <<>> THEN 0 ELSE Head(xs).a + SumA(Tail(xs))

\* children exactly partition the parent's frames, all durations positive
Partitions(parent, kids) ==
    /\ kids # <<>>
    /\ kids[1].s = parent.s
    /\ \A i \in DOMAIN kids : kids[i].d > 0
    /\ \A i \in DOMAIN kids : i > 1 => kids[i].s = kids[i-1].s + kids[i-1].d
    /\ kids[Len(kids)].s + kids[Len(kids)].d = parent.s + parent.d

\* dictionary words of the first-pass segmentation: real words and fillers (both are dictionary entries),
\* not grammar null transitions, not labels unknown to the dictionary
DictSegs(segs) == SelectSeq(segs, LAMBDA x : x.k = 0 \/ x.k = 1)

WordsAreSegments(al, segs) ==
    LET W == DictSegs(segs)
    IN /\ Len(al.words) = Len(W)
       /\ \A i \in DOMAIN W : /\ al.words[i].n = W[i].w
                              /\ al.words[i].s = W[i].sf
                              /\ al.words[i].d = W[i].ef - W[i].sf + 1

PhonesArePronunciation(al) ==
    /\ Len(al.prons) = Len(al.words)
    /\ \A i \in DOMAIN al.words : [j \in DOMAIN al.words[i].c |-> al.words[i].c[j].n] = al.prons[i]

\* the states under each phone are that phone's emitting states, in order
StatesAreEmittingStates(al) ==
    \A i \in DOMAIN al.words : \A j \in DOMAIN al.words[i].c :
        LET p == al.words[i].c[j]
        IN /\ Len(p.c) = al.nstate /\ Len(p.sseq) = al.nstate
           /\ \A k \in DOMAIN p.c : p.c[k].n = ToString(p.sseq[k])

ChildrenPartitionParents(al) ==
    \A i \in DOMAIN al.words :
        /\ Partitions(al.words[i], al.words[i].c)
        /\ \A j \in DOMAIN al.words[i].c : Partitions(al.words[i].c[j], al.words[i].c[j].c)

ContiguousFromZero(flat) ==
    /\ flat # <<>> => flat[1][1] = 0
    /\ \A i \in DOMAIN flat : flat[i][2] > 0 /\ (i > 1 => flat[i][1] = flat[i-1][1] + flat[i-1][2])

RECURSIVE Concat(_)
Concat(ss) == IF ss = <<>> THEN <<>> ELSE Head(ss) \o Concat(Tail(ss))
TreePhones(al) == Concat([i \in DOMAIN al.words |-> al.words[i].c])
TreeStates(al) == Concat([i \in DOMAIN TreePhones(al) |-> TreePhones(al)[i].c])
Flat(xs) == [i \in DOMAIN xs |-> <<xs[i].s, xs[i].d, xs[i].a>>]

EveryLevelContiguous(al) ==
    /\ ContiguousFromZero(Flat(al.words))
    /\ ContiguousFromZero(al.flat_phones) /\ ContiguousFromZero(al.flat_states)
    \* the level iterators and the nested (children) iterators describe the same entries
    /\ al.flat_phones = Flat(TreePhones(al)) /\ al.flat_states = Flat(TreeStates(al))

ParentScoreIsSum(al) ==
    \A i \in DOMAIN al.words :
        /\ al.words[i].a = SumA(al.words[i].c)
        /\ \A j \in DOMAIN al.words[i].c : al.words[i].c[j].a = SumA(al.words[i].c[j].c)

\* Each word's score equals the acoustic part of the score the search assigned to it over the same
\* frames: the first-pass segment score ascr contains, besides frame and transition scores, the word
\* insertion penalty (once) and the phone insertion penalty (once per phone).
\* The LAST word of a result is not compared: the first pass leaves its last phone through whichever
\* right-context model scores best (nothing follows yet), the second pass through the model for the
\* context it assumes at the end of the alignment, so the two numbers are scores of different models
\* and neither is "the" acoustic score.  The same holds for ONE-PHONE real words: the search scores
\* them with silence as right context and lets their exit serve every right context, a documented
\* modelling choice of the decoder, while the alignment uses the actual neighbour (DESIGN.md, C04).
AcousticPart(seg, nphones, wip, pip) == seg.ascr - wip - nphones * pip
Compared(al, W) == {i \in DOMAIN al.words : /\ i \in DOMAIN W /\ i < Len(al.words)
                                            /\ (W[i].k = 1 \/ Len(al.words[i].c) > 1)}
WordScoresExact(al, segs, wip, pip) ==
    LET W == DictSegs(segs)
    IN \A i \in Compared(al, W) : al.words[i].a = AcousticPart(W[i], Len(al.words[i].c), wip, pip)
\* with pruning in the first pass the second pass, free inside the same boundaries, can only be better
WordScoresAtLeast(al, segs, wip, pip) ==
    LET W == DictSegs(segs)
    IN \A i \in Compared(al, W) : al.words[i].a >= AcousticPart(W[i], Len(al.words[i].c), wip, pip)
=============================================================================
