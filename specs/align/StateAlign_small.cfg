SPECIFICATION Spec
CONSTANTS
  Layouts <- LaySmall
  E = 2
  Deltas <- DeltasMC
  ScoreFirstState = TRUE
INVARIANTS StatesPartition WordsKeepBoundaries TotalIsPathScore WordsSumToTotal EntriesArePath NeverFailsOnCompletePath
CHECK_DEADLOCK FALSE
