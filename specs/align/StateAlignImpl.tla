--------------------------- MODULE StateAlignImpl ---------------------------
(***************************************************************************)
(* Layer B for C04: the backtrace of state_align_search_finish() and       *)
(* alignment_propagate() transcribed, run on EVERY best path the           *)
(* constrained second pass can produce.                                    *)
(*                                                                         *)
(* The Viterbi recursion itself is abstracted: the second pass delivers    *)
(* some monotone state sequence x[0..T-1] over the linear chain of         *)
(* NP phones x E emitting states (stay or move to the next state, start in *)
(* the first state, end in the last, each phone inside the window of its   *)
(* word), with arbitrary per-frame score increments.  What the code keeps  *)
(* of it is the token table: after frame f, tokens[f][x[f+1]] = [id = x[f],*)
(* score = path score through frame f] (record_transitions), all other     *)
(* slots -1; the exit history of the last phone is x[T-1] and its exit     *)
(* score the total.  Finish walks the table backwards exactly as the C     *)
(* code does ("frame - 2 because we track transitions") and assigns start, *)
(* duration and score to a state whenever the state changes, then to the   *)
(* first state; Propagate sums states into phones and phones into words.   *)
(*                                                                         *)
(* ScoreFirstState = FALSE reproduces the code before fix f6619c0 (the     *)
(* first state keeps score 0) and violates TotalIsPathScore.               *)
(***************************************************************************)
EXTENDS Naturals, Integers, Sequences, FiniteSets, TLC

CONSTANTS Layouts,          \* set of word layouts: sequences of [np |-> phones, dur |-> frames]
          E,                \* emitting states per phone
          Deltas,           \* per-frame score increments
          ScoreFirstState   \* BOOLEAN (see above)

VARIABLES lay, x, cum, pc, ents
vars == <<lay, x, cum, pc, ents>>

RECURSIVE SumDur(_), SumNp(_)
SumDur(l) == IF l = <<>> THEN 0 ELSE Head(l).dur + SumDur(Tail(l))
SumNp(l) == IF l = <<>> THEN 0 ELSE Head(l).np + SumNp(Tail(l))
T == SumDur(lay)
NP == SumNp(lay)
S == NP * E                             \* states 0..S-1, state s belongs to phone s \div E

\* word of a phone, window of a word (start, exclusive end)
RECURSIVE WordOf(_, _, _)
WordOf(l, p, w) == IF p < Head(l).np THEN w ELSE WordOf(Tail(l), p - Head(l).np, w + 1)
WStart(w) == SumDur(SubSeq(lay, 1, w - 1))
WEnd(w) == WStart(w) + lay[w].dur
PhoneWord(p) == WordOf(lay, p, 1)
\* a state may emit in frame f only inside its word's window
Allowed(s, f) == LET w == PhoneWord(s \div E) IN WStart(w) <= f /\ f < WEnd(w)

Init == /\ lay \in Layouts
        /\ x = <<0>> /\ \E d \in Deltas : cum = <<d>>
        /\ pc = "run" /\ ents = <<>>

\* one more frame of the best path
Step == /\ pc = "run" /\ Len(x) < T
        /\ \E nxt \in {x[Len(x)], x[Len(x)] + 1}, d \in Deltas :
              /\ nxt < S /\ Allowed(nxt, Len(x))
              /\ x' = Append(x, nxt) /\ cum' = Append(cum, cum[Len(cum)] + d)
        /\ UNCHANGED <<lay, pc, ents>>

\* token table as record_transitions leaves it (frames 0-based: f = 0..T-2)
Tok(f, s) == IF f + 2 <= Len(x) /\ x[f + 2] = s THEN [id |-> x[f + 1], score |-> cum[f + 1]] ELSE [id |-> -1, score |-> 0]

\* state_align_search_finish: the backward loop
RECURSIVE Back(_, _, _, _, _)
Back(cf, cur, last, lastframe, acc) ==      \* acc: function state -> [start, dur, score] or "none"
    IF cf < 0 THEN [ok |-> TRUE, last |-> last, lastframe |-> lastframe, acc |-> acc]
    ELSE LET c == Tok(cf, cur.id)
         IN IF c.id = -1 THEN [ok |-> FALSE, last |-> last, lastframe |-> lastframe, acc |-> acc]
            ELSE IF c.id # last.id
                 THEN Back(cf - 1, c, c, cf + 1,
                           [acc EXCEPT ![last.id] = [start |-> cf + 1, dur |-> lastframe - (cf + 1),
                                                     score |-> last.score - c.score]])
                 ELSE Back(cf - 1, c, last, lastframe, acc)

Finish == /\ pc = "run" /\ Len(x) = T
          /\ IF x[T] # S - 1
             THEN pc' = "fail" /\ ents' = <<>>          \* "Failed to reach final state in alignment"
             ELSE LET l0 == [id |-> x[T], score |-> cum[T]]
                      none == [start |-> -1, dur |-> -1, score |-> 0]
                      r == Back(T - 2, l0, l0, T, [s \in 0..(S - 1) |-> none])
                  IN IF ~r.ok THEN pc' = "fail" /\ ents' = <<>>
                     ELSE /\ pc' = "done"
                          \* "Update alignment entry for initial state"
                          /\ ents' = [r.acc EXCEPT ![0] = [start |-> 0, dur |-> r.lastframe,
                                                          score |-> IF ScoreFirstState THEN r.last.score ELSE 0]]
          /\ UNCHANGED <<lay, x, cum>>

Next == Step \/ Finish
Spec == Init /\ [][Next]_vars

-----------------------------------------------------------------------------
(* alignment_propagate and the Layer-A clauses *)
RECURSIVE SumF(_, _, _)
SumF(f(_), a, b) == IF a > b THEN 0 ELSE f(a) + SumF(f, a + 1, b)
StDur(s) == ents[s].dur
StScore(s) == ents[s].score
PhStart(p) == ents[p * E].start
PhDur(p) == SumF(StDur, p * E, p * E + E - 1)
PhScore(p) == SumF(StScore, p * E, p * E + E - 1)
FirstPhone(w) == SumNp(SubSeq(lay, 1, w - 1))
WdStart(w) == PhStart(FirstPhone(w))
WdDur(w) == SumF(PhDur, FirstPhone(w), FirstPhone(w) + lay[w].np - 1)
WdScore(w) == SumF(PhScore, FirstPhone(w), FirstPhone(w) + lay[w].np - 1)

Done == pc = "done"
\* every state got a start, a positive duration, and the levels are contiguous from frame 0
StatesPartition == Done => /\ ents[0].start = 0
                           /\ \A s \in 0..(S - 1) : ents[s].dur > 0
                           /\ \A s \in 1..(S - 1) : ents[s].start = ents[s-1].start + ents[s-1].dur
                           /\ ents[S-1].start + ents[S-1].dur = T
\* the words come out with the boundaries that were imposed on them
WordsKeepBoundaries == Done => \A w \in DOMAIN lay : WdStart(w) = WStart(w) /\ WdDur(w) = lay[w].dur
\* scores: every frame's increment is attributed to exactly one state
TotalIsPathScore == Done => SumF(StScore, 0, S - 1) = cum[T]
RECURSIVE SumW(_)
SumW(w) == IF w = 0 THEN 0 ELSE WdScore(w) + SumW(w - 1)
WordsSumToTotal == Done => SumW(Len(lay)) = SumF(StScore, 0, S - 1)
\* the state entries describe the path that was found
EntriesArePath == Done => \A f \in 1..T : ents[x[f]].start <= f - 1 /\ f - 1 < ents[x[f]].start + ents[x[f]].dur
\* a complete path always backtraces
NeverFailsOnCompletePath == (pc = "fail") => x[T] # S - 1
=============================================================================
