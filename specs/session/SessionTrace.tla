---------------------------- MODULE SessionTrace ----------------------------
(***************************************************************************)
(* Layer C for C08: histories of operations on one or two live decoder     *)
(* instances (the edge tours of SessionImpl's state graph), executed on    *)
(* the real library.  Every finished utterance is filed under the tuple    *)
(* the property names (grammar, dictionary, CMN state at its start - read  *)
(* back with decoder_get_cmn -, audio, feeding schedule, batch flag); the  *)
(* map `seen' lives across ALL executions of the trace file, so the same   *)
(* tuple met after different histories, on a fresh decoder, or on the      *)
(* other instance must show the same hypothesis, score, segmentation,      *)
(* alignment and lattice.                                                  *)
(* Every utterance is filed a second time under the HISTORY of its         *)
(* instance since its normalisation state was last replaced (creation or   *)
(* decoder_set_cmn, with the text given): that state being the one         *)
(* deliberate carry-over, nothing from before the reset may show - also    *)
(* not in the second or third utterance after it, where state that the     *)
(* text form does not expose (running sums, frame counts) comes into play. *)
(***************************************************************************)
EXTENDS Session, Json, IOUtils

JTrace == ndJsonDeserialize(IOEnv.TRACE)
VARIABLES l, cur, pend, seen, hist
Ev == JTrace[l]
Clause(name, cond) == IF cond THEN TRUE ELSE PrintT(<<"CLAUSE-FAILED", name, l>>) /\ FALSE

Insts == 0..3
NoPend == [set |-> FALSE]
NoHist == <<"none">>
TInit == l = 1 /\ cur = 0 /\ pend = [i \in Insts |-> NoPend] /\ seen = << >> /\ hist = [i \in Insts |-> NoHist] /\ TLCSet(1, 0)

\* a new execution: all instances gone, the map stays
\* Header = decoder_init on the current instance: its history starts
THeader == Ev.e = "Header" /\ hist' = [hist EXCEPT ![cur] = <<"init">>] /\ UNCHANGED <<cur, pend, seen>>
TUse == Ev.e = "Use" /\ cur' = Ev.inst /\ UNCHANGED <<pend, seen, hist>>
\* "key:<gram>:<audio>:<batch>" announced by the driver before the utterance starts
\* Mark "S:<tuple>" (streaming: the CMN state at the start is part of the key) or "B:<tuple>" (batch)
TMark == /\ Ev.e = "Mark"
         /\ IF Ev.v = "__case__"        \* a new execution: every instance is gone, the map stays
            THEN cur' = 0 /\ pend' = [i \in Insts |-> NoPend] /\ hist' = [i \in Insts |-> NoHist]
            ELSE /\ cur' = cur /\ hist' = hist
                 /\ pend' = [pend EXCEPT ![cur] = [set |-> TRUE, tag |-> Ev.v, batch |-> Ev.batch, key |-> "batch", hkey |-> NoHist]]
         /\ UNCHANGED seen
TStart == /\ Ev.e = "Start"
          /\ Clause("start-ok", Ev.ret = 0)
          /\ pend' = [pend EXCEPT ![cur] = IF pend[cur].set
                                          THEN [pend[cur] EXCEPT !.key = IF pend[cur].batch THEN "batch" ELSE Ev.cmn,
                                                                 !.hkey = hist[cur]]
                                          ELSE pend[cur]]
          \* the utterance becomes part of the instance's history (whether or not it moves the estimate)
          /\ hist' = [hist EXCEPT ![cur] = IF pend[cur].set THEN Append(@, pend[cur].tag) ELSE <<"untracked">>]
          /\ UNCHANGED <<cur, seen>>
TSetCmn == /\ Ev.e = "SetCmn"
           /\ hist' = [hist EXCEPT ![cur] = IF Ev.ret = 0 THEN <<"set", Ev.v>> ELSE <<"untracked">>]
           /\ UNCHANGED <<cur, pend, seen>>
TFeedEnd == Ev.e \in {"Feed", "End", "Grammar", "Cmn"} /\ UNCHANGED <<cur, pend, seen, hist>>

Proj == CASE Ev.e = "Result" -> [hyp |-> Ev.hyp, hypnull |-> Ev.hypnull, score |-> Ev.score, scored |-> Ev.scored,
                                 segs |-> [i \in DOMAIN Ev.segs |-> <<Ev.segs[i].w, Ev.segs[i].sf, Ev.segs[i].ef, Ev.segs[i].ascr, Ev.segs[i].lscr>>]]
          [] Ev.e = "Align" -> IF Ev.null THEN <<"null">> ELSE Ev.words
          [] Ev.e = "Lattice" -> IF Ev.null THEN <<"null">> ELSE <<Ev.frames, Ev.nodes, Ev.links, Ev.start, Ev.end>>

TObs == /\ Ev.e \in {"Result", "Align", "Lattice"}
        \* results asked mid-utterance are filed too (under their tag): asking twice, or at the same point of the
        \* same utterance in another history, must give the same answer
        /\ IF ~pend[cur].set THEN UNCHANGED seen
           ELSE LET k == <<Ev.e, pend[cur].tag, <<"text", pend[cur].key>>, Ev.tag>>
                    \* (filed under the history for what was asked after the end of the utterance)
                    tracked == pend[cur].hkey # NoHist /\ pend[cur].hkey[1] # "untracked" /\ Ev.tag = "fin" /\ Ev.e # "Lattice"
                    h == <<Ev.e, pend[cur].tag, <<"history">> \o pend[cur].hkey, Ev.tag>>
                IN /\ Clause("same-tuple-same-" \o Ev.e, Agrees(seen, k, Proj))
                   /\ Clause("same-history-since-reset-same-" \o Ev.e, tracked => Agrees(seen, h, Proj))
                   /\ seen' = IF tracked THEN Record(Record(seen, k, Proj), h, Proj) ELSE Record(seen, k, Proj)
        /\ UNCHANGED <<cur, pend, hist>>

TNext == /\ l <= Len(JTrace)
         /\ (THeader \/ TUse \/ TMark \/ TStart \/ TSetCmn \/ TFeedEnd \/ TObs)
         /\ l' = l + 1
         /\ TLCSet(1, l)
TSpec == TInit /\ [][TNext]_<<l, cur, pend, seen, hist>>
Accepted == IF TLCGet(1) = Len(JTrace) THEN TRUE
            ELSE PrintT(<<"REJECTED-AT", TLCGet(1) + 1>>) /\ FALSE
=============================================================================
