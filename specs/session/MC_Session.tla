---- MODULE MC_Session ----
EXTENDS SessionImpl, Json
NoDev == {}
AsWas == {"cmn-mode-sticks"}
DevSums == {"short-reset-keeps-sums"}
DevBeams == {"beams-not-restored"}
DevStatic == {"static-cache"}
Thr == {"a2"}
\* graph export for the tours: the op labels are what matters; the state identity hides `seen'
\* (the CMN history is reduced to how it began and how many utterances it holds, as hidden state is a function of it)
Red(s) == [i \in Inst |-> IF s[i].alive THEN [s[i] EXCEPT !.cmn = <<s[i].cmn[1], Len(s[i].cmn)>>, !.cmn0 = <<>>] ELSE s[i]]
TourView == <<Red(st), nops>>      \* (glob is constant 0 without deviations)
DumpEdge == PrintT(<<"EDGE", ToJson([f |-> ToString(<<Red(st), nops>>), a |-> last', t |-> ToString(<<Red(st'), nops'>>)])>>)
====
