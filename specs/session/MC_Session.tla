---- MODULE MC_Session ----
EXTENDS SessionImpl, Json
NoDev == {}
AsWas == {"cmn-mode-sticks"}
\* graph export for the tours: the op labels are what matters; the state identity hides `seen'
TourView == <<st, nops>>
DumpEdge == PrintT(<<"EDGE", ToJson([f |-> ToString(<<st, nops>>), a |-> last', t |-> ToString(<<st', nops'>>)])>>)
====
