------------------------------- MODULE Session -------------------------------
(***************************************************************************)
(* Layer A for C08: the result of an utterance is a FUNCTION of            *)
(*   the configuration, the active grammar, the dictionary, the channel-   *)
(*   normalisation state at its start (not in full-utterance batch mode)   *)
(*   and its audio (with the way it was fed),                              *)
(* and of nothing else: not of earlier utterances, not of grammar          *)
(* switches, not of the other decoder instances alive in the process.      *)
(*                                                                         *)
(* `seen' maps the tuples met so far to the result first observed for it;  *)
(* an utterance may be recorded iff its result agrees with the map.        *)
(***************************************************************************)
EXTENDS Naturals, Sequences, TLC

\* the tuple an utterance depends on; in batch mode the CMN state at its start is irrelevant
Key(cfg, gram, dict, cmn, audio, feed, batch) ==
    IF batch THEN <<cfg, gram, dict, <<"batch">>, audio, feed>> ELSE <<cfg, gram, dict, cmn, audio, feed>>

Agrees(seen, k, res) == k \notin DOMAIN seen \/ seen[k] = res
Record(seen, k, res) == IF k \in DOMAIN seen THEN seen ELSE [x \in DOMAIN seen \cup {k} |-> IF x = k THEN res ELSE seen[x]]
=============================================================================
