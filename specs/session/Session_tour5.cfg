SPECIFICATION Spec
CONSTANTS
  Inst = {1, 2}
  Grams = {1, 2}
  Audios = {"a1", "a2"}
  Deviations <- NoDev
  Throttling <- Thr
  MaxOps = 5
ACTION_CONSTRAINT DumpEdge
VIEW TourView
CHECK_DEADLOCK FALSE
