SPECIFICATION Spec
CONSTANTS
  Inst = {1, 2}
  Grams = {1, 2}
  Audios = {"a1", "a2"}
  Deviations <- DevStatic
  Throttling <- Thr
  MaxOps = 9
INVARIANT FunctionalDependency
CHECK_DEADLOCK FALSE
