----------------------------- MODULE SessionImpl -----------------------------
(***************************************************************************)
(* Layer B for C08: decoder instances with the HIDDEN state the C code     *)
(* carries from one utterance to the next, and a result function that      *)
(* reads hidden state exactly where the code does.  "B refines A" then     *)
(* says hidden state never reaches a result; a counterexample is a history *)
(* in which it does.  The state graph is also the source of the histories  *)
(* replayed on the real decoder (every edge once).                         *)
(*                                                                         *)
(* Hidden state per instance                                               *)
(*   cmnmode   the normalisation mode stored in the feature computer:      *)
(*             "cfg" (as configured: batch for full utterances) or "live"  *)
(*             (feat_cmn used to overwrite it on the first streaming block)*)
(*   ring      live feature ring content: "clean" or "stale"               *)
(*   gsel      Gaussian-selection history of the last frame scored         *)
(*   accum     the running CMN sums hold frames of utterances since the    *)
(*             last reset; stale = sums that survived a reset              *)
(*   beams     "orig" or "narrow": the search narrows its beams while more *)
(*             HMMs are active than maxhmmpf allows, and an utterance can  *)
(*             end in that condition                                       *)
(* Process-wide hidden state (glob): anything kept in a static variable is *)
(* shared by every decoder of the process; the two instances are created   *)
(* with different acoustic models (model = instance number), so a value    *)
(* cached from whichever decoder came first is wrong for the other         *)
(* (deviation "static-cache": the silence phone looked up once per         *)
(* process).                                                               *)
(* Visible state: grammar, cmn (the channel-normalisation state as its     *)
(* history since the last reset: <<"init">>, <<"full">> or <<"short">>     *)
(* after set_cmn with a complete or a partial vector, then one audio per   *)
(* streaming utterance), utterance in progress.                            *)
(* Deviations: "cmn-mode-sticks" reproduces the code before fix 3d7fa79;   *)
(* "short-reset-keeps-sums" (a partial vector resets the means but not the *)
(* sums of the coefficients it does not list) and "beams-not-restored"     *)
(* (start of utterance keeps the narrowed beams) are the two ways this     *)
(* state could leak that seeded changes showed the check has to see.       *)
(***************************************************************************)
EXTENDS Session, FiniteSets

CONSTANTS Inst, Grams, Audios, Deviations, MaxOps,
          Throttling      \* audios that end while the search is throttled (with the configured maxhmmpf)
VARIABLES st, seen, last, nops, glob
vars == <<st, seen, last, nops, glob>>

\* a new decoder comes with grammar 1 loaded (configuration); instance 2 is only created next to instance 1
\* (the two are interchangeable)
Fresh == [alive |-> TRUE, gram |-> 1, cmn |-> <<"init">>, cmnmode |-> "cfg", ring |-> "clean", gsel |-> "none",
          utt |-> "idle", audio |-> "", batch |-> FALSE, cmn0 |-> <<>>, accum |-> FALSE, stale |-> FALSE, stale0 |-> FALSE,
          beams |-> "orig", beams0 |-> "orig", gl0 |-> 0]
Dead == [alive |-> FALSE]

Init == /\ st = [i \in Inst |-> Dead] /\ seen = << >> /\ last = <<"init">> /\ nops = 0 /\ glob = 0

New(i) == /\ ~st[i].alive /\ (i = 1 \/ st[1].alive) /\ st' = [st EXCEPT ![i] = Fresh] /\ last' = <<"new", i>> /\ UNCHANGED <<seen, glob>>
Free(i) == /\ st[i].alive /\ st[i].utt = "idle" /\ st' = [st EXCEPT ![i] = Dead] /\ last' = <<"free", i>> /\ UNCHANGED <<seen, glob>>
SetGram(i, g) == /\ st[i].alive /\ st[i].utt = "idle" /\ st[i].gram # g
                 /\ st' = [st EXCEPT ![i].gram = g] /\ last' = <<"gram", i, g>> /\ UNCHANGED <<seen, glob>>
\* decoder_set_cmn with all 13 values ("full") or fewer ("short"): either way the whole state is replaced
SetCmn(i, kind) ==
    /\ st[i].alive /\ st[i].utt = "idle" /\ st[i].cmn # <<kind>>
    /\ st' = [st EXCEPT ![i].cmn = <<kind>>, ![i].accum = FALSE,
                        ![i].stale = kind = "short" /\ st[i].accum /\ "short-reset-keeps-sums" \in Deviations]
    /\ last' = <<"setcmn", i, kind>> /\ UNCHANGED <<seen, glob>>

\* start + feed everything (streaming in pieces, or one full-utterance batch call)
Begin(i, a, batch) ==
    /\ st[i].alive /\ st[i].utt = "idle" /\ st[i].gram # 0
    /\ st' = [st EXCEPT ![i].utt = "fed", ![i].audio = a, ![i].batch = batch, ![i].cmn0 = st[i].cmn,
                        \* a streaming block switches the stored mode for good (the deviation) or not at all
                        ![i].cmnmode = IF ~batch /\ "cmn-mode-sticks" \in Deviations THEN "live" ELSE @,
                        ![i].ring = "stale", ![i].gsel = a, ![i].stale0 = st[i].stale,
                        ![i].gl0 = IF "static-cache" \in Deviations THEN (IF glob = 0 THEN i ELSE glob) ELSE i,
                        \* start of utterance restores the configured beams
                        ![i].beams0 = IF "beams-not-restored" \in Deviations THEN st[i].beams ELSE "orig"]
    \* the first utterance of the process fills the static cache with ITS decoder's value
    /\ glob' = IF "static-cache" \in Deviations /\ glob = 0 THEN i ELSE glob
    /\ last' = <<"begin", i, a, batch>> /\ UNCHANGED seen

\* the normalisation a batch utterance really gets
EffBatch(i) == st[i].batch /\ st[i].cmnmode = "cfg"
\* the result as the code computes it: the declared arguments ... plus hidden state where it leaks
Result(i) == <<"R", st[i].gram, IF EffBatch(i) THEN <<"batch">> ELSE st[i].cmn0, st[i].audio, st[i].batch>>
             \o (IF st[i].stale0 /\ ~EffBatch(i) THEN <<"stale sums">> ELSE <<>>)
             \o (IF st[i].beams0 # "orig" THEN <<"narrow beams">> ELSE <<>>)
             \o (IF st[i].gl0 # i THEN <<"another decoder's cached value">> ELSE <<>>)

End(i) ==
    /\ st[i].alive /\ st[i].utt = "fed"
    /\ LET k == Key("cfg", st[i].gram, "dict", st[i].cmn0, st[i].audio, "feed", st[i].batch)
           r == Result(i)
       IN /\ seen' = Record(seen, k, r)
          /\ last' = <<"end", i, Agrees(seen, k, r)>>
    /\ UNCHANGED glob
    /\ st' = [st EXCEPT ![i].utt = "idle",
                        \* streaming utterances move the running estimate; a batch one that was really
                        \* normalised as batch does not
                        ![i].cmn = IF EffBatch(i) THEN @ ELSE Append(@, st[i].audio),
                        ![i].accum = IF EffBatch(i) THEN @ ELSE TRUE,
                        ![i].beams = IF st[i].audio \in Throttling THEN "narrow" ELSE "orig"]

DoNew == \E i \in Inst : New(i)
DoFree == \E i \in Inst : Free(i)
DoSetCmn == \E i \in Inst, kind \in {"full", "short"} : SetCmn(i, kind)
DoEnd == \E i \in Inst : End(i)
DoSetGram == \E i \in Inst, g \in Grams : SetGram(i, g)
DoBegin == \E i \in Inst, a \in Audios, b \in BOOLEAN : Begin(i, a, b)
Tick == nops < MaxOps /\ nops' = nops + 1
ANew == Tick /\ DoNew
AFree == Tick /\ DoFree
ASetCmn == Tick /\ DoSetCmn
AEnd == Tick /\ DoEnd
ASetGram == Tick /\ DoSetGram
ABegin == Tick /\ DoBegin
Next == ANew \/ AFree \/ ASetCmn \/ AEnd \/ ASetGram \/ ABegin
Spec == Init /\ [][Next]_vars

\* B refines A: no utterance ever disagrees with what the same tuple gave before
FunctionalDependency == last[1] = "end" => last[3]
=============================================================================
