------------------------------ MODULE TextTrace ------------------------------
(* Trace validation for C10.  One execution of the real library (one forked child of harness/textin/txt_drv.c) is

     case  [parsed  [used]  [freed]]  end

   "case" shows the bytes handed to the public entry point of the format (all of them up to 700 bytes; longer inputs
   are only described, their verdict is "U"); "parsed" is the return value and the object dumped through public
   accessors; "used" / "freed" say the child got that far; "end" is written by the parent and says how the child
   ended.  The format's reader (TextFormats / TextConfig) is applied to the recorded bytes.  Clauses:

     ended-normally   the child returned from every call and exited 0: no crash, exit(), abort(), assertion,
                      sanitizer report, leak or time-out
     valid-accepted   verdict "T"  =>  an object was returned
     valid-value      verdict "T"  =>  the object's dumped value is the one the specification read
     well-formed      whatever the verdict, an object that was returned satisfies its type's invariant
     used-and-freed   a child that ended normally used the object and freed it
     invalid-refused  (note only) verdict "F" => failure was reported *)
EXTENDS TextDamage, Json, IOUtils

JTrace == ndJsonDeserialize(IOEnv.TRACE)

VARIABLES l, ex
vars == <<l, ex>>
Ev == JTrace[l]
Clause(name, cond) == IF cond THEN TRUE ELSE PrintT(<<"CLAUSE-FAILED", name, l>>)
Note(name, cond) == IF cond THEN TRUE ELSE PrintT(<<"NOTE", name, l>>)

NoEx == [stage |-> "none", fmt |-> "-", v |-> "-", val |-> NoVal, ret |-> 0]
TInit == l = 1 /\ ex = NoEx /\ TLCSet(1, 0)

THeader == Ev.e = "Header" /\ ex.stage \in {"none", "done"} /\ ex' = ex

TCase ==
    /\ Ev.e = "case" /\ ex.stage \in {"none", "done"} /\ Ev.fmt \in SeqToSet(Formats)
    /\ LET r == IF Ev.shown THEN Read(Ev.fmt, Ev.bytes) ELSE Res("U", "not-shown", NoVal, <<>>)
       IN  /\ PrintT(<<"VERDICT", r.v, l>>)
           /\ ex' = [stage |-> "case", fmt |-> Ev.fmt, v |-> r.v, val |-> r.val, ret |-> 0]

Finite(x) == x > -2000000000 /\ x < 2000000000
SameValue(f, o, val) ==
    CASE f = "fsg" -> FsgSameValue(o, val)
      [] f = "dict" -> DictSameValue(o, val)
      [] f = "config" -> ConfigSameValue(o, val)
      [] f = "addword" -> o.w = val.w /\ o.p = val.p
      [] f = "cmn" -> Len(o.vals) >= Len(val.vals) /\ \A i \in 1 .. Len(val.vals) : o.vals[i] = val.vals[i]
      [] OTHER -> TRUE
WellFormed(f, o) ==
    CASE f = "fsg" -> FsgWellFormed(o)
      [] f = "dict" -> DictWellFormed(o, Phones)
      [] f = "config" -> ConfigWellFormed(o)
      [] f = "addword" -> o.found = 1 /\ Len(o.p) >= 1 /\ Len(o.w) >= 1 /\ \A i \in 1 .. Len(o.p) : o.p[i] \in Phones
      [] f = "cmn" -> Len(o.vals) = NCep /\ \A i \in 1 .. Len(o.vals) : Finite(o.vals[i])
      [] OTHER -> TRUE

TParsed ==
    /\ Ev.e = "parsed" /\ ex.stage = "case" /\ Ev.ret \in {0, 1}
    /\ Clause("valid-accepted", ex.v = "T" => Ev.ret = 1)
    /\ Clause("valid-value", ex.v = "T" /\ Ev.ret = 1 => SameValue(ex.fmt, Ev.val, ex.val))
    /\ Clause("well-formed", Ev.ret = 1 => WellFormed(ex.fmt, Ev.val))
    /\ Note("invalid-refused", ex.v = "F" => Ev.ret = 0)
    /\ ex' = [ex EXCEPT !.stage = "parsed", !.ret = Ev.ret]

TUsed == Ev.e = "used" /\ ex.stage = "parsed" /\ ex' = [ex EXCEPT !.stage = "used"]
TFreed == Ev.e = "freed" /\ ex.stage \in {"parsed", "used"} /\ (ex.stage = "parsed" => ex.ret = 0) /\ ex' = [ex EXCEPT !.stage = "freed"]

TEnd ==
    /\ Ev.e = "end" /\ ex.stage \in {"case", "parsed", "used", "freed"}
    /\ Ev.how \in {"ok", "exit", "abort", "signal", "sanitizer", "leak", "timeout"}
    /\ Clause("ended-normally", Ev.how = "ok")
    /\ Clause("used-and-freed", Ev.how = "ok" => ex.stage = "freed")
    /\ ex' = [NoEx EXCEPT !.stage = "done"]

TNext == /\ l <= Len(JTrace)
         /\ (THeader \/ TCase \/ TParsed \/ TUsed \/ TFreed \/ TEnd)
         /\ l' = l + 1
         /\ TLCSet(1, l)
TSpec == TInit /\ [][TNext]_vars

Accepted == IF TLCGet(1) = Len(JTrace) THEN TRUE
            ELSE PrintT(<<"REJECTED-AT", TLCGet(1) + 1>>) /\ FALSE
=============================================================================
