------------------------------ MODULE TextConfig ------------------------------
(* Configuration strings for config_parse_json: an RFC 8259 object (JsonSyntax) whose members are parameters with
   values of their declared type.  The relaxed forms the library also takes (no braces, unquoted words) are left
   "U"; a text with an unterminated string or object is no configuration at all. *)
EXTENDS TextFormats
J == INSTANCE JsonSyntax

(* parameters the specification knows: name bytes -> type; AbsentParams are known not to exist *)
Unterminated(b) ==
    LET RECURSIVE F(_, _, _, _)
        F(i, instr, esc, depth) ==
            IF i > Len(b) THEN instr \/ depth > 0
            ELSE IF instr THEN (IF esc THEN F(i + 1, TRUE, FALSE, depth) ELSE IF b[i] = 92 THEN F(i + 1, TRUE, TRUE, depth)
                                ELSE IF b[i] = 34 THEN F(i + 1, FALSE, FALSE, depth) ELSE F(i + 1, TRUE, FALSE, depth))
            ELSE IF b[i] = 34 THEN F(i + 1, TRUE, FALSE, depth)
            ELSE IF b[i] \in {123, 91} THEN F(i + 1, FALSE, FALSE, depth + 1)
            ELSE IF b[i] \in {125, 93} THEN (IF depth = 0 THEN FALSE ELSE F(i + 1, FALSE, FALSE, depth - 1))
            ELSE F(i + 1, FALSE, FALSE, depth)
    IN  Len(b) > 0 /\ b[J!SkipWS(b, 1)] \in {123, 34} /\ F(1, FALSE, FALSE, 0)

(* generic lexical tokens for damage derivation: runs of name/number bytes, single punctuation bytes *)
IsNameByte(c) == (c >= 48 /\ c <= 57) \/ (c >= 65 /\ c <= 90) \/ (c >= 97 /\ c <= 122) \/ c \in {95, 46, 43, 45, 47}
LexToks(b) ==
    LET n == Len(b)
        kindof(r) == IF ParseInt(Sub(b, r)).k = "int" \/ ParseProb(Sub(b, r)) \in {"one", "unit", "zero", "gt1", "neg"} THEN "num" ELSE "word"
        RECURSIVE F(_, _, _)
        F(i, start, acc) ==
            IF i > n THEN (IF start > 0 THEN Append(acc, Tok(<<start, n>>, kindof(<<start, n>>))) ELSE acc)
            ELSE IF IsNameByte(b[i]) THEN F(i + 1, IF start > 0 THEN start ELSE i, acc)
            ELSE LET a2 == IF start > 0 THEN Append(acc, Tok(<<start, i - 1>>, kindof(<<start, i - 1>>))) ELSE acc
                 IN  F(i + 1, 0, IF IsSpace(b[i]) THEN a2 ELSE Append(a2, Tok(<<i, i>>, "punct")))
    IN  F(1, 0, <<>>)

IntOf(v) == IF v.t = "n" /\ v.fp = <<>> /\ ~v.ex /\ Len(v.ip) <= 9 THEN [ok |-> TRUE, v |-> (IF v.neg THEN -1 ELSE 1) * J!DigitsVal(v.ip)] ELSE [ok |-> FALSE, v |-> 0]
HundOf(v) == IF v.t = "n" /\ Len(v.fp) <= 2 /\ ~v.ex /\ Len(v.ip) <= 6
             THEN [ok |-> TRUE, v |-> (IF v.neg THEN -1 ELSE 1) * (J!DigitsVal(v.ip) * 100 + (IF Len(v.fp) = 1 THEN 10 ELSE 1) * J!DigitsVal(v.fp))]
             ELSE [ok |-> FALSE, v |-> 0]
MemberOK(k, v) ==
    IF k \in ParamInt THEN IntOf(v).ok
    ELSE IF k \in ParamFloat THEN HundOf(v).ok
    ELSE IF k \in ParamStr THEN v.t = "s" /\ Len(v.s) > 0 /\ \A i \in 1 .. Len(v.s) : v.s[i] >= 32 /\ v.s[i] <= 126
    ELSE IF k \in ParamBool THEN v.t = "l" /\ v.s \in {"true", "false"}
    ELSE FALSE
MemberVal(k, v) ==
    IF k \in ParamInt THEN [k |-> k, t |-> "i", i |-> IntOf(v).v, s |-> <<>>]
    ELSE IF k \in ParamFloat THEN [k |-> k, t |-> "f", i |-> HundOf(v).v, s |-> <<>>]
    ELSE IF k \in ParamStr THEN [k |-> k, t |-> "s", i |-> 0, s |-> v.s]
    ELSE [k |-> k, t |-> "b", i |-> IF v.s = "true" THEN 1 ELSE 0, s |-> <<>>]

ReadConfig(b) ==
    IF ~Plain(b) THEN Res("U", "bytes-outside-printable-ascii", NoVal, <<>>)
    ELSE LET r == J!PVal(b, 1)
             toks == LexToks(b)
             strict == r.ok /\ J!SkipWS(b, r.p) = Len(b) + 1 /\ r.v.t = "o"
         IN  IF ~strict THEN (IF Unterminated(b) THEN Res("F", "unterminated", NoVal, toks) ELSE Res("U", "not-a-strict-json-object", NoVal, toks))
             ELSE LET m == r.v.m IN
                  IF \E i \in 1 .. Len(m) : m[i][1] \in AbsentParams THEN Res("F", "unknown-parameter", NoVal, toks)
                  ELSE IF ~J!UniqueKeys(r.v) THEN Res("U", "duplicate-key", NoVal, toks)
                  ELSE IF \E i \in 1 .. Len(m) : ~MemberOK(m[i][1], m[i][2]) THEN Res("U", "parameter-or-type-not-known-to-the-specification", NoVal, toks)
                  ELSE Res("T", "-", [members |-> [i \in 1 .. Len(m) |-> MemberVal(m[i][1], m[i][2])]], toks)

(* the object dumped: members = what the configuration says of every key of the input, read back through the typed
   accessors: [k, t, i, s] *)
ConfigSameValue(o, val) == \A i \in 1 .. Len(val.members) : \E j \in 1 .. Len(o.members) : o.members[j] = val.members[i]
ConfigWellFormed(o) == \A j \in 1 .. Len(o.members) : o.members[j].t \in {"i", "f", "s", "b"} /\ (o.members[j].t = "b" => o.members[j].i \in {0, 1})

(* JSGF: only the instances themselves are known to be grammars; everything derived from them is "U" *)
ReadJsgf(b, valid) == IF b \in valid THEN Res("T", "-", NoVal, LexToks(b)) ELSE Res("U", "not-an-instance", NoVal, IF Plain(b) THEN LexToks(b) ELSE <<>>)
=============================================================================
