SPECIFICATION Spec
INVARIANTS TypeOK IntactValid NoFinalNewlineSame ReadToEnd TruncationNotSilentlyDifferent FsgTruncatedBeforeEndNotValid DictCrLfSame FsgBadNumbersInvalid FsgStateOutOfRange FsgZeroStates OddBytesNotClaimed
CHECK_DEADLOCK FALSE
VIEW View
