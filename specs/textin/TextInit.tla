------------------------------- MODULE TextInit -------------------------------
(* C10, derivation: every (format, valid instance, damage) case, its verdict by the format's reader, theorems about
   the readers, and the export of the cases as JSON lines for the executor. *)
EXTENDS TextDamage, Json

Nest(f) == IF f = "config" THEN NestKinds.json ELSE IF f = "jsgf" THEN NestKinds.jsgf ELSE {}

VARIABLES phase, fmt, inst, dmg, verdict
vars == <<phase, fmt, inst, dmg, verdict>>
NoD == D("-", 0, 0, "-")
Init == phase = "fresh" /\ fmt = "-" /\ inst = 0 /\ dmg = NoD /\ verdict = "-"

Intact(f, i) == Read(f, Inst(f)[i].b)
Damaged(f, i, d) == Apply(Inst(f)[i].b, Intact(f, i).toks, d)
Result(f, i, d) == IF Described(d) THEN Res("U", "described-only", NoVal, <<>>) ELSE Read(f, Damaged(f, i, d))

Attempt(f, i, d) == /\ phase = "fresh" /\ phase' = "attempted" /\ fmt' = f /\ inst' = i /\ dmg' = d
                    /\ verdict' = Result(f, i, d).v
Next == \E k \in 1 .. Len(Formats) : \E i \in 1 .. Len(Inst(Formats[k])) :
          \E d \in Damages(Inst(Formats[k])[i].b, Intact(Formats[k], i).toks, Nest(Formats[k])) : Attempt(Formats[k], i, d)
Spec == Init /\ [][Next]_vars

(* ---- theorems ---- *)
A == phase = "attempted"
TypeOK == verdict \in {"-", "T", "F", "U"}
(* the instances are instances, and remain so without the final newline *)
IntactValid == A /\ dmg.c \in {"intact"} => verdict = "T"
NoFinalNewlineSame == A /\ dmg.c = "nofinalnl" /\ fmt # "jsgf" => verdict = "T" /\ Result(fmt, inst, dmg).val = Intact(fmt, inst).val
(* the readers consume the instance to its last field: the last field ends at the last non-blank byte *)
ReadToEnd == A /\ dmg.c = "intact" => LET b == Inst(fmt)[inst].b
                                        tk == Intact(fmt, inst).toks
                                    IN  Len(tk) > 0 /\ \A j \in tk[Len(tk)].r[2] + 1 .. Len(b) : IsSpace(b[j])
(* no truncation (nor any other damage) of an FSG text silently reads as a different grammar of the same shape:
   a truncated text that still is an instance lost only blanks *)
TruncationNotSilentlyDifferent ==
    A /\ dmg.c = "trunc" /\ verdict = "T" /\ fmt \in {"fsg"} => Result(fmt, inst, dmg).val = Intact(fmt, inst).val
FsgTruncatedBeforeEndNotValid ==
    A /\ fmt = "fsg" /\ dmg.c = "trunc" /\ dmg.a < Intact(fmt, inst).toks[Len(Intact(fmt, inst).toks)].r[2] => verdict # "T"
(* a dictionary with CR-LF line ends has the entries of the one with LF *)
DictCrLfSame == A /\ fmt = "dict" /\ dmg.c = "crlf" => verdict = "T" /\ Result(fmt, inst, dmg).val = Intact(fmt, inst).val
(* out-of-range or malformed numbers in an FSG text are refused, never read as something *)
FsgBadNumbersInvalid ==
    A /\ fmt = "fsg" /\ dmg.c = "repl" /\ dmg.x \in {"minus-one", "nan", "letters", "minus-huge", "int32-min", "inf"} => verdict # "T"
FsgStateOutOfRange == A /\ fmt = "fsg" /\ dmg.c = "repl" /\ dmg.x \in {"seven", "minus-one", "int32-min"} /\ Intact(fmt, inst).toks[dmg.t].k = "state" => verdict = "F"
FsgZeroStates == A /\ fmt = "fsg" /\ dmg.c = "repl" /\ dmg.x = "zero" /\ Intact(fmt, inst).toks[dmg.t].k = "count" => verdict = "F"
(* bytes outside printable ASCII are never claimed to be valid *)
OddBytesNotClaimed == A /\ dmg.c = "byte" /\ dmg.x # "vtab" => verdict = "U"

(* ---- export ---- *)
ValJson(f, r) == IF r.v # "T" \/ f = "jsgf" THEN [none |-> TRUE]
                 ELSE IF f = "fsg" THEN [n |-> r.val.n, s |-> r.val.s, f |-> r.val.f, narcs |-> Cardinality(r.val.arcs), nnull |-> Cardinality(r.val.nulls)]
                 ELSE r.val
Export ==
    IF phase = "fresh" /\ phase' = "attempted"
    THEN LET b == Inst(fmt')[inst'].b
             tk == Intact(fmt', inst').toks
             r == Result(fmt', inst', dmg')
         IN  PrintT(<<"CASE", ToJson([fmt |-> fmt', inst |-> Inst(fmt')[inst'].name, name |-> Name(tk, dmg'), kind |-> Kind(tk, dmg'), cls |-> dmg'.c,
                                      described |-> Described(dmg'),
                                      desc |-> IF Described(dmg') THEN [a |-> dmg'.a, x |-> dmg'.x, r |-> IF dmg'.t > 0 THEN tk[dmg'.t].r ELSE <<0, 0>>] ELSE [a |-> 0, x |-> "-", r |-> <<0, 0>>],
                                      bytes |-> IF Described(dmg') THEN b ELSE Damaged(fmt', inst', dmg'),
                                      verdict |-> r.v, why |-> r.why, val |-> ValJson(fmt', r)])>>)
    ELSE TRUE
View == <<phase, fmt, inst, dmg>>
=============================================================================
