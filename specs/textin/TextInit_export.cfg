SPECIFICATION Spec
INVARIANTS TypeOK IntactValid NoFinalNewlineSame ReadToEnd TruncationNotSilentlyDifferent FsgTruncatedBeforeEndNotValid DictCrLfSame FsgBadNumbersInvalid FsgStateOutOfRange FsgZeroStates OddBytesNotClaimed
ACTION_CONSTRAINT Export
CHECK_DEADLOCK FALSE
VIEW View
