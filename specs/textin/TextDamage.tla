------------------------------ MODULE TextDamage ------------------------------
(* Damages of a text, derived from the fields (toks) the reader of its format consumed in the valid instance.
   A damage is [c, a, t, x]:
     trunc      keep the first a bytes
     del/dup    delete / duplicate field t ; swap: exchange fields t and t+1
     repl       field t (a number) replaced by Repl[x]
     byte       byte a (the first of a field) replaced by the code ByteCode[x]
     linedup    line t written twice ; linedel: line t removed
     crlf, nofinalnl, cronly, intact
     longtoken  field t grown to a bytes   } descriptions only: the bytes are made by the executor, the
     deepnest   x nested a deep            } specification does not carry them *)
EXTENDS TextConfig

D(c, a, t, x) == [c |-> c, a |-> a, t |-> t, x |-> x]
NumKinds == {"count", "state", "prob", "num"}
Described(d) == d.c \in {"longtoken", "deepnest"}

FirstOfKind(toks) == {i \in 1 .. Len(toks) : \A j \in 1 .. i - 1 : toks[j].k # toks[i].k}
Damages(b, toks, nest) ==
    {D("trunc", k, 0, "-") : k \in 0 .. Len(b) - 1}
    \cup {D(op, 0, i, "-") : op \in {"del", "dup"}, i \in 1 .. Len(toks)}
    \cup {D("swap", 0, i, "-") : i \in 1 .. Len(toks) - 1}
    \cup {D("repl", 0, i, x) : i \in {j \in 1 .. Len(toks) : toks[j].k \in NumKinds}, x \in DOMAIN Repl}
    \cup {D("byte", toks[i].r[1], i, x) : i \in 1 .. Len(toks), x \in DOMAIN ByteCode}
    \cup {D(op, 0, i, "-") : op \in {"linedup", "linedel"}, i \in 1 .. Len(LineRanges(b))}
    \cup {D("crlf", 0, 0, "-"), D("nofinalnl", 0, 0, "-"), D("cronly", 0, 0, "-"), D("intact", 0, 0, "-")}
    \cup {D("longtoken", n, i, "-") : n \in {300, 5000, 70000}, i \in FirstOfKind(toks)}
    \cup {D("deepnest", n, 0, x) : n \in {200, 100000}, x \in nest}

Replace(b, r, x) == SubSeq(b, 1, r[1] - 1) \o x \o SubSeq(b, r[2] + 1, Len(b))
RECURSIVE CrLf(_, _, _)
CrLf(b, i, acc) == IF i > Len(b) THEN acc ELSE CrLf(b, i + 1, IF b[i] = 10 THEN acc \o <<13, 10>> ELSE Append(acc, b[i]))
Apply(b, toks, d) ==
    IF d.c = "trunc" THEN SubSeq(b, 1, d.a)
    ELSE IF d.c = "del" THEN Replace(b, toks[d.t].r, <<>>)
    ELSE IF d.c = "dup" THEN Replace(b, toks[d.t].r, Sub(b, toks[d.t].r) \o <<32>> \o Sub(b, toks[d.t].r))
    ELSE IF d.c = "swap" THEN Replace(Replace(b, toks[d.t + 1].r, Sub(b, toks[d.t].r)), toks[d.t].r, Sub(b, toks[d.t + 1].r))
    ELSE IF d.c = "repl" THEN Replace(b, toks[d.t].r, Repl[d.x])
    ELSE IF d.c = "byte" THEN [b EXCEPT ![d.a] = ByteCode[d.x]]
    ELSE IF d.c = "linedup" THEN LET r == LineRanges(b)[d.t] IN SubSeq(b, 1, r[1] - 1) \o Sub(b, r) \o <<10>> \o SubSeq(b, r[1], Len(b))
    ELSE IF d.c = "linedel" THEN LET r == LineRanges(b)[d.t] IN SubSeq(b, 1, r[1] - 1) \o SubSeq(b, r[2] + 2, Len(b))
    ELSE IF d.c = "crlf" THEN CrLf(b, 1, <<>>)
    ELSE IF d.c = "cronly" THEN [i \in 1 .. Len(b) |-> IF b[i] = 10 THEN 13 ELSE b[i]]
    ELSE IF d.c = "nofinalnl" THEN (IF Len(b) > 0 /\ b[Len(b)] = 10 THEN SubSeq(b, 1, Len(b) - 1) ELSE b)
    ELSE b

(* the stable name of the kind of damage (part of violation keys) and the name of the individual case *)
Kind(toks, d) ==
    IF d.c = "trunc" THEN "truncated"
    ELSE IF d.c = "del" THEN toks[d.t].k \o "-deleted"
    ELSE IF d.c = "dup" THEN toks[d.t].k \o "-duplicated"
    ELSE IF d.c = "swap" THEN "fields-swapped"
    ELSE IF d.c = "repl" THEN toks[d.t].k \o "-" \o d.x
    ELSE IF d.c = "byte" THEN "byte-" \o d.x
    ELSE IF d.c = "linedup" THEN "line-duplicated"
    ELSE IF d.c = "linedel" THEN "line-deleted"
    ELSE IF d.c = "longtoken" THEN toks[d.t].k \o "-long-" \o ToString(d.a)
    ELSE IF d.c = "deepnest" THEN d.x \o "-nested-" \o ToString(d.a)
    ELSE d.c
Name(toks, d) == Kind(toks, d) \o "@" \o ToString(d.a) \o "." \o ToString(d.t)

(* ---- the reader of every format ---- *)
Formats == <<"fsg", "dict", "config", "align", "addword", "cmn", "jsgf">>
Inst(f) == CASE f = "fsg" -> FsgInst [] f = "dict" -> DictInst [] f = "config" -> ConfigInst [] f = "align" -> AlignInst
             [] f = "addword" -> AddWordInst [] f = "cmn" -> CmnInst [] f = "jsgf" -> JsgfInst
JsgfValid == {JsgfInst[i].b : i \in 1 .. Len(JsgfInst)}

(* word TAB phones *)
ReadAddWordText(b) ==
    LET tabs == {i \in 1 .. Len(b) : b[i] = 9}
        k == IF tabs = {} THEN Len(b) + 1 ELSE CHOOSE i \in tabs : \A j \in tabs : i <= j
        w == SubSeq(b, 1, k - 1)
        p == SubSeq(b, k + 1, Len(b))
        r == ReadAddWord(w, p, Phones, KnownWords)
    IN  [r EXCEPT !.toks = <<Tok(<<1, k - 1>>, "word")>> \o [i \in 1 .. Len(r.toks) |-> Tok(<<r.toks[i].r[1] + k, r.toks[i].r[2] + k>>, "phone")]]

Read(f, b) == CASE f = "fsg" -> ReadFsg(b) [] f = "dict" -> ReadDict(b, Phones) [] f = "config" -> ReadConfig(b)
                [] f = "align" -> ReadAlign(b, KnownWords, AbsentWords) [] f = "addword" -> ReadAddWordText(b)
                [] f = "cmn" -> ReadCmn(b, NCep) [] f = "jsgf" -> ReadJsgf(b, JsgfValid)
=============================================================================
