----------------------------- MODULE TextFormats -----------------------------
(* C10: the text input formats are the specification.  Every reader takes the bytes and returns

      [v |-> "T" | "F" | "U", why |-> reason, val |-> the abstract object (for "T"), toks |-> fields it consumed]

   "T": the bytes are an instance of the format as documented; val is what any conforming reader must build.
   "F": no reader conforming to the documentation can make an object of these bytes.
   "U": the documentation does not say (the library is lenient here, or the bytes are outside what the
        documentation talks about); only the safety clauses apply.

   Sources: include/soundswallower/fsg_model.h (FSG text format), dict.h / the comments of dict.c (dictionary),
   config.h (config_parse_json: JSON object or relaxed "key: value" list), decoder.h (decoder_set_align_text,
   decoder_add_word, decoder_set_cmn). *)
EXTENDS TextBytes, TextConst

Res(v, why, val, toks) == [v |-> v, why |-> why, val |-> val, toks |-> toks]
Tok(r, k) == [r |-> r, k |-> k]
NoVal == [none |-> TRUE]

(* ------------------------------------------------------------------ FSG text ------------------------------------ *)
KW == [begin |-> <<70,83,71,95,66,69,71,73,78>>, nstates |-> <<78,85,77,95,83,84,65,84,69,83>>, n |-> <<78>>,
       start |-> <<83,84,65,82,84,95,83,84,65,84,69>>, s |-> <<83>>, final |-> <<70,73,78,65,76,95,83,84,65,84,69>>, f |-> <<70>>,
       trans |-> <<84,82,65,78,83,73,84,73,79,78>>, t |-> <<84>>, end |-> <<70,83,71,95,69,78,68>>]
MaxStates == 100000     \* above this the documentation cannot be said to promise an object (memory)

(* statements: the word ranges of every line that is neither blank nor a comment ('#' in the first column) *)
FsgStatements(b) ==
    LET L == LineRanges(b)
        W == [i \in 1 .. Len(L) |-> WordRanges(b, L[i][1], L[i][2])]
    IN  SelectSeq(W, LAMBDA ws : Len(ws) > 0 /\ b[ws[1][1]] # 35)
FsgOddComment(b) ==     \* '#' after leading blanks, or a CR inside: who knows
    LET L == LineRanges(b) IN \E i \in 1 .. Len(L) : L[i][1] <= L[i][2] /\ b[L[i][1]] # 35 /\
                                 LET ws == WordRanges(b, L[i][1], L[i][2]) IN Len(ws) > 0 /\ b[ws[1][1]] = 35

(* the state declared by statement st (two words: keyword value) with n states *)
StateOf(b, st, n) ==
    IF Len(st) < 2 THEN [k |-> "F", why |-> "value-missing", v |-> 0]
    ELSE LET p == ParseInt(Sub(b, st[2]))
         IN  IF p.k = "none" THEN [k |-> "F", why |-> "not-a-number", v |-> 0]
             ELSE IF p.k = "prefix" THEN [k |-> "U", why |-> "number-with-trailing-bytes", v |-> 0]
             ELSE IF p.big THEN (IF p.neg THEN [k |-> "F", why |-> "negative", v |-> 0] ELSE [k |-> "U", why |-> "huge", v |-> 0])
             ELSE IF p.v < 0 THEN [k |-> "F", why |-> "negative", v |-> 0]
             ELSE IF p.v >= n THEN [k |-> "F", why |-> "out-of-range", v |-> 0]
             ELSE IF Len(st) > 2 THEN [k |-> "U", why |-> "extra-words", v |-> p.v]
             ELSE [k |-> "T", why |-> "-", v |-> p.v]

RECURSIVE FsgArcs(_, _, _, _, _, _)
(* statements from i on; acc = [arcs, nulls, toks]; returns Res *)
FsgArcs(b, S, i, hdr, acc, unk) ==
    IF i > Len(S) THEN Res("U", "no-FSG_END", NoVal, acc.toks)
    ELSE LET st == S[i]
             kw == Sub(b, st[1])
         IN  IF kw = KW.end
             THEN IF unk # "-" THEN Res("U", unk, NoVal, acc.toks)
                  ELSE IF Len(st) > 1 \/ i < Len(S) THEN Res("U", "text-after-FSG_END", NoVal, Append(acc.toks, Tok(st[1], "kw")))
                  ELSE Res("T", "-", [n |-> hdr.n, s |-> hdr.s, f |-> hdr.f, arcs |-> acc.arcs, nulls |-> acc.nulls, ones |-> acc.ones, units |-> acc.units],
                           Append(acc.toks, Tok(st[1], "kw")))
             ELSE IF kw \in {KW.trans, KW.t}
             THEN IF Len(st) < 4 THEN Res("F", "transition-fields-missing", NoVal, acc.toks)
                  ELSE LET fr == StateOf(b, <<st[1], st[2]>>, hdr.n)
                           to == StateOf(b, <<st[1], st[3]>>, hdr.n)
                           pr == ParseProb(Sub(b, st[4]))
                           tk == acc.toks \o <<Tok(st[1], "kw"), Tok(st[2], "state"), Tok(st[3], "state"), Tok(st[4], "prob")>>
                                    \o (IF Len(st) >= 5 THEN <<Tok(st[5], "word")>> ELSE <<>>)
                       IN  IF fr.k = "F" THEN Res("F", "from-state-" \o fr.why, NoVal, tk)
                           ELSE IF fr.k = "T" /\ to.k = "F" THEN Res("F", "to-state-" \o to.why, NoVal, tk)
                           ELSE IF fr.k = "T" /\ to.k = "T" /\ pr \in {"zero", "neg", "gt1", "notnum"} THEN Res("F", "probability-" \o pr, NoVal, tk)
                           ELSE LET u == IF fr.k = "U" THEN "from-state-" \o fr.why ELSE IF to.k # "T" THEN "to-state-" \o to.why
                                         ELSE IF pr = "other" THEN "probability-other"
                                         ELSE IF Len(st) > 5 THEN "extra-words" ELSE unk
                                IN  FsgArcs(b, S, i + 1, hdr,
                                            [arcs |-> IF Len(st) >= 5 /\ fr.k = "T" /\ to.k = "T" THEN acc.arcs \cup {<<fr.v, to.v, Sub(b, st[5])>>} ELSE acc.arcs,
                                             ones |-> IF Len(st) >= 5 /\ fr.k = "T" /\ to.k = "T" /\ pr = "one" THEN acc.ones \cup {<<fr.v, to.v, Sub(b, st[5])>>} ELSE acc.ones,
                                             units |-> IF Len(st) >= 5 /\ fr.k = "T" /\ to.k = "T" /\ pr = "unit" THEN acc.units \cup {<<fr.v, to.v, Sub(b, st[5])>>} ELSE acc.units,
                                             nulls |-> IF Len(st) = 4 /\ fr.k = "T" /\ to.k = "T" /\ fr.v # to.v THEN acc.nulls \cup {<<fr.v, to.v>>} ELSE acc.nulls,
                                             toks |-> tk], u)
             ELSE FsgArcs(b, S, i + 1, hdr, acc, "unknown-keyword")

ReadFsg(b) ==
    IF ~Plain(b) THEN Res("U", "bytes-outside-printable-ascii", NoVal, <<>>)
    ELSE IF \E i \in 1 .. Len(b) : b[i] = 13 THEN Res("U", "carriage-return", NoVal, <<>>)
    ELSE IF FsgOddComment(b) THEN Res("U", "indented-comment", NoVal, <<>>)
    ELSE
    LET S == FsgStatements(b)
        kwof(i) == Sub(b, S[i][1])
        t1 == <<Tok(S[1][1], "kw")>> \o (IF Len(S[1]) > 1 THEN <<Tok(S[1][2], "name")>> ELSE <<>>)
    IN  IF Len(S) = 0 THEN Res("F", "empty", NoVal, <<>>)
        ELSE IF kwof(1) # KW.begin THEN Res("U", "does-not-start-with-FSG_BEGIN", NoVal, <<>>)
        ELSE IF Len(S[1]) > 2 THEN Res("U", "extra-words", NoVal, t1)
        ELSE IF Len(S) = 1 THEN Res("F", "ends-before-NUM_STATES", NoVal, t1)
        ELSE IF kwof(2) \notin {KW.nstates, KW.n} THEN Res("U", "unknown-keyword", NoVal, t1)
        ELSE IF Len(S[2]) < 2 THEN Res("U", "NUM_STATES-value-missing", NoVal, t1)
        ELSE
        LET np == ParseInt(Sub(b, S[2][2]))
            t2 == t1 \o <<Tok(S[2][1], "kw"), Tok(S[2][2], "count")>>
        IN  IF np.k = "none" THEN Res("F", "NUM_STATES-not-a-number", NoVal, t2)
            ELSE IF np.k = "prefix" THEN Res("U", "NUM_STATES-number-with-trailing-bytes", NoVal, t2)
            ELSE IF np.neg /\ (np.big \/ np.v < 0) THEN Res("F", "NUM_STATES-negative", NoVal, t2)
            ELSE IF np.big \/ np.v > MaxStates THEN Res("U", "NUM_STATES-huge", NoVal, t2)
            ELSE IF np.v = 0 THEN Res("F", "NUM_STATES-zero", NoVal, t2)     \* no state can be the start state
            ELSE IF Len(S[2]) > 2 THEN Res("U", "extra-words", NoVal, t2)
            ELSE IF Len(S) = 2 THEN Res("F", "ends-before-START_STATE", NoVal, t2)
            ELSE IF kwof(3) \notin {KW.start, KW.s} THEN Res("U", "unknown-keyword", NoVal, t2)
            ELSE
            LET ss == StateOf(b, S[3], np.v)
                t3 == t2 \o <<Tok(S[3][1], "kw")>> \o (IF Len(S[3]) > 1 THEN <<Tok(S[3][2], "state")>> ELSE <<>>)
            IN  IF ss.why = "value-missing" THEN Res("U", "START_STATE-value-missing", NoVal, t3)
                ELSE IF ss.k # "T" THEN Res(ss.k, "START_STATE-" \o ss.why, NoVal, t3)
                ELSE IF Len(S) = 3 THEN Res("F", "ends-before-FINAL_STATE", NoVal, t3)
                ELSE IF kwof(4) \notin {KW.final, KW.f} THEN Res("U", "unknown-keyword", NoVal, t3)
                ELSE
                LET fs == StateOf(b, S[4], np.v)
                    t4 == t3 \o <<Tok(S[4][1], "kw")>> \o (IF Len(S[4]) > 1 THEN <<Tok(S[4][2], "state")>> ELSE <<>>)
                IN  IF fs.why = "value-missing" THEN Res("U", "FINAL_STATE-value-missing", NoVal, t4)
                    ELSE IF fs.k # "T" THEN Res(fs.k, "FINAL_STATE-" \o fs.why, NoVal, t4)
                    ELSE FsgArcs(b, S, 5, [n |-> np.v, s |-> ss.v, f |-> fs.v], [arcs |-> {}, nulls |-> {}, ones |-> {}, units |-> {}, toks |-> t4], "-")

(* what any FSG object must satisfy: dumped as [n, s, f, arcs |-> <<<<from, to, word bytes, logprob>>...>>] *)
FsgWellFormed(o) ==
    /\ o.n >= 1 /\ o.s \in 0 .. o.n - 1 /\ o.f \in 0 .. o.n - 1
    /\ \A i \in 1 .. Len(o.arcs) : o.arcs[i][1] \in 0 .. o.n - 1 /\ o.arcs[i][2] \in 0 .. o.n - 1 /\ o.arcs[i][4] <= 0 /\ o.arcs[i][5] = 1
FsgSameValue(o, val) ==
    /\ o.n = val.n /\ o.s = val.s /\ o.f = val.f
    /\ {<<o.arcs[i][1], o.arcs[i][2], o.arcs[i][3]>> : i \in {j \in 1 .. Len(o.arcs) : o.arcs[j][3] # <<>>}} = val.arcs
    /\ val.nulls \subseteq {<<o.arcs[i][1], o.arcs[i][2]>> : i \in {j \in 1 .. Len(o.arcs) : o.arcs[j][3] = <<>>}}
    (* probability exactly one is log-probability zero, a probability below one is below zero (of equal arcs the
       likelier one is kept) *)
    /\ \A i \in 1 .. Len(o.arcs) : LET a == <<o.arcs[i][1], o.arcs[i][2], o.arcs[i][3]>>
                                    IN  /\ a \in val.ones => o.arcs[i][4] = 0
                                        /\ a \in val.units \ val.ones => o.arcs[i][4] < 0

(* ------------------------------------------------------------------ dictionary ---------------------------------- *)
(* word [ "(" n ")" ] phone+ ; comment lines start with "##" or ";;" ; blank lines; CR-LF ends a line as LF does.
   The reader needs the model's phone set. *)
DictLines(b) ==
    LET L == LineRanges(b)
        keep(r) == ~(r[2] - r[1] >= 1 /\ ((b[r[1]] = 35 /\ b[r[1] + 1] = 35) \/ (b[r[1]] = 59 /\ b[r[1] + 1] = 59)))
        W == [i \in 1 .. Len(L) |-> IF keep(L[i]) THEN WordRanges(b, L[i][1], L[i][2]) ELSE <<>>]
    IN  SelectSeq(W, LAMBDA ws : Len(ws) > 0)
(* base word of "w(2)" is "w"; a word without such a suffix is its own base *)
BaseOf(w) == IF Len(w) >= 4 /\ w[Len(w)] = 41 /\ \E k \in 2 .. Len(w) - 2 : w[k] = 40 /\ AllDigits(SubSeq(w, k + 1, Len(w) - 1))
             THEN SubSeq(w, 1, (CHOOSE k \in 2 .. Len(w) - 2 : w[k] = 40 /\ AllDigits(SubSeq(w, k + 1, Len(w) - 1))) - 1) ELSE w
HasParen(w) == \E i \in 1 .. Len(w) : w[i] \in {40, 41}
ReadDict(b, phones) ==
    IF ~Plain(b) THEN Res("U", "bytes-outside-printable-ascii", NoVal, <<>>)
    ELSE
    LET E == DictLines(b)
        word(i) == Sub(b, E[i][1])
        pron(i) == [j \in 1 .. Len(E[i]) - 1 |-> Sub(b, E[i][j + 1])]
        okline(i) == /\ Len(E[i]) >= 2 /\ \A j \in 1 .. Len(E[i]) - 1 : pron(i)[j] \in phones
                     /\ \A k \in 1 .. i - 1 : word(k) # word(i)
                     /\ (BaseOf(word(i)) # word(i) => \E k \in 1 .. i - 1 : word(k) = BaseOf(word(i)))
                     /\ (BaseOf(word(i)) = word(i) => ~HasParen(word(i)))
        toks == [i \in 1 .. Len(E) |-> <<Tok(E[i][1], "word")>> \o [j \in 1 .. Len(E[i]) - 1 |-> Tok(E[i][j + 1], "phone")]]
        RECURSIVE Flat(_, _)
        Flat(i, acc) == IF i > Len(E) THEN acc ELSE Flat(i + 1, acc \o toks[i])
    IN  IF Len(E) = 0 THEN Res("U", "no-entries", NoVal, <<>>)
        ELSE IF \E i \in 1 .. Len(E) : Len(E[i]) < 2 THEN Res("U", "word-without-pronunciation", NoVal, Flat(1, <<>>))
        ELSE IF \E i \in 1 .. Len(E) : \E j \in 1 .. Len(E[i]) - 1 : pron(i)[j] \notin phones THEN Res("U", "unknown-phone", NoVal, Flat(1, <<>>))
        ELSE IF \E i \in 1 .. Len(E) : ~okline(i) THEN Res("U", "duplicate-or-orphan-alternative", NoVal, Flat(1, <<>>))
        ELSE Res("T", "-", [entries |-> [i \in 1 .. Len(E) |-> [w |-> word(i), p |-> pron(i)]]], Flat(1, <<>>))

(* dumped as [entries |-> <<[w, p, base]...>>, nphone-unknown ...] *)
DictWellFormed(o, phones) ==
    \A i \in 1 .. Len(o.entries) : /\ Len(o.entries[i].p) >= 1 /\ Len(o.entries[i].w) >= 1
                                   /\ \A j \in 1 .. Len(o.entries[i].p) : o.entries[i].p[j] \in phones
                                   /\ o.entries[i].found = 1
DictSameValue(o, val) ==
    /\ Len(o.entries) = Len(val.entries)
    /\ \A i \in 1 .. Len(val.entries) : o.entries[i].w = val.entries[i].w /\ o.entries[i].p = val.entries[i].p

(* ------------------------------------------------------------------ word / pronunciation pair -------------------- *)
(* decoder_add_word(word, phones): a non-empty word that is new, one or more blank separated phones of the model *)
ReadAddWord(w, p, phones, known) ==
    IF ~Plain(w) \/ ~Plain(p) THEN Res("U", "bytes-outside-printable-ascii", NoVal, <<>>)
    ELSE LET ws == IF Len(p) = 0 THEN <<>> ELSE WordRanges(p, 1, Len(p))
             toks == [i \in 1 .. Len(ws) |-> Tok(ws[i], "phone")]
         IN  IF Len(w) = 0 THEN Res("F", "empty-word", NoVal, toks)
             ELSE IF Len(ws) = 0 THEN Res("F", "empty-pronunciation", NoVal, toks)
             ELSE IF \E i \in 1 .. Len(ws) : Sub(p, ws[i]) \notin phones THEN Res("F", "unknown-phone", NoVal, toks)
             ELSE IF w \in known THEN Res("F", "word-exists", NoVal, toks)
             ELSE IF \E i \in 1 .. Len(w) : IsSpace(w[i]) \/ w[i] \in {40, 41} THEN Res("U", "odd-word", NoVal, toks)
             ELSE Res("T", "-", [w |-> w, p |-> [i \in 1 .. Len(ws) |-> Sub(p, ws[i])]], toks)

(* ------------------------------------------------------------------ alignment text ------------------------------- *)
(* blank separated words, every one in the dictionary.  known = words the specification knows to be in the
   dictionary, absent = words it knows not to be; of other words it cannot tell. *)
ReadAlign(b, known, absent) ==
    IF ~Plain(b) THEN Res("U", "bytes-outside-printable-ascii", NoVal, <<>>)
    ELSE LET ws == IF Len(b) = 0 THEN <<>> ELSE WordRanges(b, 1, Len(b))
             toks == [i \in 1 .. Len(ws) |-> Tok(ws[i], "word")]
         IN  IF \E i \in 1 .. Len(ws) : Sub(b, ws[i]) \in absent THEN Res("F", "unknown-word", NoVal, toks)
             ELSE IF Len(ws) = 0 THEN Res("U", "no-words", NoVal, toks)
             ELSE IF \E i \in 1 .. Len(b) : b[i] \in {11, 12} THEN Res("U", "odd-blank", NoVal, toks)
             ELSE IF \E i \in 1 .. Len(ws) : Sub(b, ws[i]) \notin known THEN Res("U", "word-not-known-to-the-specification", NoVal, toks)
             ELSE Res("T", "-", [words |-> [i \in 1 .. Len(ws) |-> Sub(b, ws[i])]], toks)

(* ------------------------------------------------------------------ CMN text ------------------------------------- *)
(* comma separated decimal numbers, at most as many as cepstral coefficients (13).  Values in hundredths. *)
Hundredths(w) ==    \* [-]d+[.d{1,2}] -> value * 100 ; else "x"
    LET neg == Len(w) > 0 /\ w[1] = 45
        u == IF neg THEN Tail(w) ELSE w
        parts == IF Len(u) = 0 THEN <<>> ELSE SplitRanges(u, 1, Len(u), 46)
        ip == IF Len(parts) >= 1 THEN Sub(u, parts[1]) ELSE <<>>
        fp == IF Len(parts) = 2 THEN Sub(u, parts[2]) ELSE <<>>
    IN  IF Len(parts) \in {1, 2} /\ AllDigits(ip) /\ Len(ip) <= 3 /\ (Len(parts) = 1 \/ (AllDigits(fp) /\ Len(fp) <= 2))
        THEN LET v == DigVal(ip, 1, 0) * 100 + (IF Len(fp) = 0 THEN 0 ELSE IF Len(fp) = 1 THEN DigVal(fp, 1, 0) * 10 ELSE DigVal(fp, 1, 0))
             IN  [ok |-> TRUE, v |-> IF neg THEN 0 - v ELSE v]
        ELSE [ok |-> FALSE, v |-> 0]
ReadCmn(b, ncep) ==
    IF ~Plain(b) THEN Res("U", "bytes-outside-printable-ascii", NoVal, <<>>)
    ELSE IF Len(b) = 0 THEN Res("U", "empty", NoVal, <<>>)
    ELSE LET parts == SplitRanges(b, 1, Len(b), 44)
             toks == [i \in 1 .. Len(parts) |-> Tok(parts[i], "num")]
             hs == [i \in 1 .. Len(parts) |-> Hundredths(Sub(b, parts[i]))]
         IN  IF Len(parts) > ncep THEN Res("U", "more-values-than-coefficients", NoVal, toks)
             ELSE IF \E i \in 1 .. Len(parts) : ~hs[i].ok THEN Res("U", "not-a-plain-decimal", NoVal, toks)
             ELSE Res("T", "-", [vals |-> [i \in 1 .. Len(parts) |-> hs[i].v]], toks)
=============================================================================
