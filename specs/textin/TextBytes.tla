------------------------------ MODULE TextBytes ------------------------------
(* Bytes, lines, blank separated words and numbers of the text inputs (C10).  A text is a tuple of byte codes
   0..255; a range is <<first, last>> (1-based, inclusive). *)
EXTENDS Integers, Sequences, FiniteSets, TLC

IsSpace(c) == c \in {32, 9, 10, 11, 12, 13}
IsDigit(c) == c >= 48 /\ c <= 57
(* bytes of which the documentation of every format speaks: printable ASCII, blank, tab, CR, LF *)
PlainByte(c) == (c >= 32 /\ c <= 126) \/ c \in {9, 10, 13}
Plain(b) == \A i \in 1 .. Len(b) : PlainByte(b[i])
Sub(b, r) == SubSeq(b, r[1], r[2])

(* lines: separated by LF; a last line without LF counts; an empty text has no line *)
LineRanges(b) ==
    LET n == Len(b)
        RECURSIVE F(_, _, _)
        F(i, start, acc) == IF i > n THEN (IF start <= n THEN Append(acc, <<start, n>>) ELSE acc)
                            ELSE IF b[i] = 10 THEN F(i + 1, i + 1, Append(acc, <<start, i - 1>>))
                            ELSE F(i + 1, start, acc)
    IN  F(1, 1, <<>>)

(* blank separated words of b[lo..hi] *)
WordRanges(b, lo, hi) ==
    LET RECURSIVE F(_, _, _)
        F(i, start, acc) ==
            IF i > hi THEN (IF start > 0 THEN Append(acc, <<start, hi>>) ELSE acc)
            ELSE IF IsSpace(b[i]) THEN (IF start > 0 THEN F(i + 1, 0, Append(acc, <<start, i - 1>>)) ELSE F(i + 1, 0, acc))
            ELSE F(i + 1, IF start > 0 THEN start ELSE i, acc)
    IN  F(lo, 0, <<>>)

(* pieces of b[lo..hi] separated by byte sep (empty pieces count: range <<k, k-1>>) *)
SplitRanges(b, lo, hi, sep) ==
    LET RECURSIVE F(_, _, _)
        F(i, start, acc) == IF i > hi THEN Append(acc, <<start, hi>>)
                            ELSE IF b[i] = sep THEN F(i + 1, i + 1, Append(acc, <<start, i - 1>>))
                            ELSE F(i + 1, start, acc)
    IN  F(lo, lo, <<>>)

AllDigits(w) == Len(w) > 0 /\ \A i \in 1 .. Len(w) : IsDigit(w[i])
RECURSIVE DigVal(_, _, _)
DigVal(w, i, acc) == IF i > Len(w) THEN acc ELSE DigVal(w, i + 1, acc * 10 + (w[i] - 48))

(* an integer as the documentation means it: [-]digits.
   k = "int" (v = value, or big = TRUE when it has more than 9 digits), "prefix" (a C conversion would read a number
   off its front: a sign or digit comes first but other bytes follow - the documentation does not say), "none". *)
ParseInt(w) ==
    LET neg == Len(w) > 0 /\ w[1] = 45
        d == IF neg THEN Tail(w) ELSE w
    IN  IF AllDigits(d) THEN (IF Len(d) > 9 THEN [k |-> "int", neg |-> neg, big |-> TRUE, v |-> 0]
                              ELSE [k |-> "int", neg |-> neg, big |-> FALSE, v |-> IF neg THEN 0 - DigVal(d, 1, 0) ELSE DigVal(d, 1, 0)])
        ELSE IF Len(w) > 0 /\ (IsDigit(w[1]) \/ (w[1] \in {43, 45} /\ Len(w) > 1 /\ IsDigit(w[2])))
        THEN [k |-> "prefix", neg |-> neg, big |-> FALSE, v |-> 0]
        ELSE IF Len(w) > 2 /\ w[1] \in {43, 45} /\ w[2] \in {32, 9}
        THEN [k |-> "prefix", neg |-> neg, big |-> FALSE, v |-> 0]
        ELSE [k |-> "none", neg |-> FALSE, big |-> FALSE, v |-> 0]

(* a decimal fraction digits[.digits] | .digits classified against the interval (0, 1]:
   "one" (exactly 1), "unit" (0 < p < 1), "zero", "gt1", "neg", "notnum" (no conversion reads a number off it, or it
   says nan / inf), "other" (exponents, signs, trailing bytes: left to the reader) *)
Lower(c) == IF c >= 65 /\ c <= 90 THEN c + 32 ELSE c
LowerSeq(w) == [i \in 1 .. Len(w) |-> Lower(w[i])]
ParseProb(w) ==
    LET neg == Len(w) > 0 /\ w[1] = 45
        u == IF neg THEN Tail(w) ELSE w
        parts == IF Len(u) = 0 THEN <<>> ELSE SplitRanges(u, 1, Len(u), 46)
        ip == IF Len(parts) >= 1 THEN Sub(u, parts[1]) ELSE <<>>
        fp == IF Len(parts) = 2 THEN Sub(u, parts[2]) ELSE <<>>
        shape == /\ Len(parts) \in {1, 2}
                 /\ (Len(ip) > 0 \/ Len(fp) > 0)
                 /\ (Len(ip) = 0 \/ AllDigits(ip)) /\ (Len(fp) = 0 \/ AllDigits(fp))
        nz(s) == \E i \in 1 .. Len(s) : s[i] # 48
        ipv == IF Len(ip) = 0 \/ ~nz(ip) THEN 0 ELSE IF Len(ip) > 9 THEN 2 ELSE DigVal(ip, 1, 0)
        lw == LowerSeq(u)
    IN  IF shape THEN (IF ipv = 0 /\ ~nz(fp) THEN "zero"
                       ELSE IF neg THEN "neg"
                       ELSE IF ipv = 0 THEN "unit"
                       ELSE IF ipv = 1 /\ ~nz(fp) THEN "one" ELSE "gt1")
        ELSE IF Len(lw) >= 3 /\ SubSeq(lw, 1, 3) \in {<<110, 97, 110>>, <<105, 110, 102>>} THEN "notnum"
        ELSE IF Len(u) > 0 /\ (IsDigit(u[1]) \/ u[1] \in {43, 46}) THEN "other"
        ELSE IF neg /\ Len(u) = 0 THEN "notnum"
        ELSE "notnum"

SeqToSet(s) == {s[i] : i \in 1 .. Len(s)}
=============================================================================
