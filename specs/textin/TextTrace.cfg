SPECIFICATION TSpec
POSTCONDITION Accepted
CHECK_DEADLOCK FALSE
