------------------------------- MODULE HmmStep -------------------------------
(***************************************************************************)
(* One hidden Markov model of the search network and its per-frame         *)
(* Viterbi update (src/hmm.c: hmm_enter, hmm_vit_eval, hmm_clear,          *)
(* hmm_normalize).  Every phone of every word in the lextree is one of     *)
(* these objects; C02 ("the true Viterbi optimum") rests on each of them   *)
(* computing the exact max-plus step, C18's "path scores never wrap" on    *)
(* the clamping at WORST_SCORE.                                            *)
(*                                                                         *)
(* Layer A (ghost variables paths, outp, sid): what a Viterbi search       *)
(* means.  A path enters the model at state 0 with a score and an entry    *)
(* identity (the history index of the word exit it continues, and for a    *)
(* multiplexed model the senone sequence of its left context).  Per frame  *)
(* every path in state i moves along every transition i -> j that exists   *)
(* and pays the senone score of i (under ITS OWN senone sequence) and the  *)
(* transition score.  paths[j] holds, per entry identity, the best score   *)
(* of any such path now in j; outp the same for the non-emitting exit.     *)
(* The object must show, for every live state: the best score over all     *)
(* identities, the identity of one path that achieves it (ties: any), and  *)
(* that identity's senone sequence.                                        *)
(*                                                                         *)
(* Layer B: the evaluation routines transcribed statement by statement     *)
(* (Variant): the unrolled 3-state left-to-right routine, its multiplexed  *)
(* twin, the unrolled 5-state routine and its multiplexed twin, and the     *)
(* general-topology routine with and without multiplexing.                 *)
(*                                                                         *)
(* FixT2 = FALSE is the code as it was: the scratch variable t2 is given   *)
(* the value "no skip transition" once, before the exit state is           *)
(* evaluated, and is NOT reset before state 2 is evaluated; a model with   *)
(* the skip 1 -> exit but without the skip 0 -> 2 then offers state 2 the  *)
(* candidate computed for the exit.                                        *)
(***************************************************************************)
EXTENDS Integers, FiniteSets, Sequences, TLC

CONSTANTS N,          \* number of emitting states
          Worst,      \* WORST_SCORE
          NoTr,       \* TMAT_WORST_SCORE: this value in the matrix means "no transition"
          Variant,    \* "lr3" | "lr3mpx" | "lr5" | "lr5mpx" | "any" | "anympx"
          FixT2,      \* BOOLEAN, see above
          TPSet,      \* the transition matrices: [0..N-1 -> [0..N -> Int]] (values <= 0)
          K,          \* number of senone sequences (1 unless multiplexed)
          SenVals,    \* values (<= 0) a senone score can take
          EnterVals,  \* scores a path can enter with
          MaxIds, MaxFrames

Mpx == Variant \in {"lr3mpx", "lr5mpx", "anympx"}
Bad == 0                      \* BAD_SSID
MinInt == 4 * Worst           \* INT_MIN is exactly 4 * WORST_SCORE
St == 0 .. N - 1

VARIABLES tp,                 \* the model's transition matrix (chosen once)
          sc, hi, out, outh,  \* hmm_t: score[], history[], out_score, out_history
          ss,                 \* hmm_t: senid[] of a multiplexed model (senone sequence per state)
          bs,                 \* hmm_t: bestscore
          paths, outp, sid,   \* ghost (Layer A)
          okpick,             \* ghost: the multiplexed model's last choices were best ones (see Eval)
          nid, fr, last
vars == <<tp, sc, hi, out, outh, ss, bs, paths, outp, sid, okpick, nid, fr, last>>

Max2(a, b) == IF a > b THEN a ELSE b
Best(S) == CHOOSE x \in S : \A y \in S : x >= y

---------------------------------------------------------------------------
(* Layer A *)
Sem == INSTANCE HmmSem
Moved(j, sen) == Sem!Moved(tp, NoTr, N, paths, sid, j, sen)

ScoresOf(P) == {p[2] : p \in P}
(* what the object must show *)
ShowsState(i) == IF paths[i] = {} THEN sc[i] <= Worst
                 ELSE /\ sc[i] = Best(ScoresOf(paths[i]))
                      /\ <<hi[i], sc[i]>> \in paths[i]
                      /\ (Mpx => ss[i] = sid[hi[i]])
ShowsExit == IF outp = {} THEN out <= Worst
             ELSE out = Best(ScoresOf(outp)) /\ <<outh, out>> \in outp
Exact == ShowsExit /\ (\A i \in St : ShowsState(i)) /\ okpick
(* no score is ever above the best entering score or wraps below the floor *)
NoWrap == /\ \A i \in St : sc[i] <= 0 /\ sc[i] >= 2 * Worst
          /\ out <= 0 /\ out >= 2 * Worst
(* pruning safety: nothing in the model is better than what it reports as its best *)
BestBounds == last[1] = "eval" => (bs >= out \/ out <= Worst) /\ \A i \in St : bs >= sc[i] \/ sc[i] <= Worst

---------------------------------------------------------------------------
(* Layer B *)
Sen1(sen, i) == sen[1][i]                 \* not multiplexed: the model's own sequence
Clamp(x) == IF x < Worst THEN Worst ELSE x

Lr3(sen) ==
  LET s2 == sc[2] + Sen1(sen, 2)
      s1 == sc[1] + Sen1(sen, 1)
      s0 == sc[0] + Sen1(sen, 0)
      exitOn == s1 > Worst
      t1x == s2 + tp[2][3]
      t2x == IF exitOn /\ tp[1][3] > NoTr THEN s1 + tp[1][3] ELSE MinInt     \* t2 after the exit block
      fromTwo == t1x > t2x
      s3 == Clamp(IF fromTwo THEN t1x ELSE t2x)
      t0 == s2 + tp[2][2]
      t1 == s1 + tp[1][2]
      t2 == IF tp[0][2] > NoTr THEN s0 + tp[0][2] ELSE IF FixT2 THEN MinInt ELSE t2x
      pick == IF t0 > t1 THEN (IF t2 > t0 THEN 0 ELSE 2) ELSE (IF t2 > t1 THEN 0 ELSE 1)
      n2 == Clamp(CASE pick = 0 -> t2 [] pick = 1 -> t1 [] OTHER -> t0)
      u0 == s1 + tp[1][1]
      u1 == s0 + tp[0][1]
      keep1 == u0 > u1
      n1 == Clamp(IF keep1 THEN u0 ELSE u1)
      n0 == Clamp(s0 + tp[0][0])
      b0 == IF exitOn THEN s3 ELSE Worst
  IN [sc |-> [i \in St |-> CASE i = 0 -> n0 [] i = 1 -> n1 [] OTHER -> n2],
      hi |-> [i \in St |-> CASE i = 2 -> hi[pick] [] i = 1 -> (IF keep1 THEN hi[1] ELSE hi[0]) [] OTHER -> hi[0]],
      out |-> IF exitOn THEN s3 ELSE out,
      outh |-> IF exitOn THEN (IF fromTwo THEN hi[2] ELSE hi[1]) ELSE outh,
      ss |-> ss,
      bs |-> Max2(Max2(b0, n2), Max2(n1, n0))]

Lr3Mpx(sen) ==
  LET dead2 == ss[2] = Bad
      dead1 == ss[1] = Bad
      s2 == IF dead2 THEN Worst ELSE sc[2] + sen[ss[2]][2]
      t1x == IF dead2 THEN Worst ELSE s2 + tp[2][3]
      s1 == IF dead1 THEN Worst ELSE sc[1] + sen[ss[1]][1]
      t2x == IF dead1 THEN Worst ELSE IF tp[1][3] > NoTr THEN s1 + tp[1][3] ELSE MinInt
      fromTwo == t1x > t2x
      s3 == Clamp(IF fromTwo THEN t1x ELSE t2x)
      s0 == sc[0] + sen[ss[0]][0]
      t0 == IF s2 # Worst THEN s2 + tp[2][2] ELSE Worst
      t1 == IF s1 # Worst THEN s1 + tp[1][2] ELSE Worst
      t2 == IF tp[0][2] > NoTr THEN s0 + tp[0][2] ELSE IF FixT2 THEN MinInt ELSE t2x
      pick == IF t0 > t1 THEN (IF t2 > t0 THEN 0 ELSE 2) ELSE (IF t2 > t1 THEN 0 ELSE 1)
      n2 == Clamp(CASE pick = 0 -> t2 [] pick = 1 -> t1 [] OTHER -> t0)
      u0 == IF s1 # Worst THEN s1 + tp[1][1] ELSE Worst
      u1 == s0 + tp[0][1]
      keep1 == u0 > u1
      n1 == Clamp(IF keep1 THEN u0 ELSE u1)
      n0 == Clamp(s0 + tp[0][0])
  IN [sc |-> [i \in St |-> CASE i = 0 -> n0 [] i = 1 -> n1 [] OTHER -> n2],
      hi |-> [i \in St |-> CASE i = 2 -> hi[pick] [] i = 1 -> (IF keep1 THEN hi[1] ELSE hi[0]) [] OTHER -> hi[0]],
      out |-> s3,
      outh |-> IF fromTwo THEN hi[2] ELSE hi[1],
      ss |-> [i \in St |-> CASE i = 2 -> ss[pick] [] i = 1 -> (IF keep1 THEN ss[1] ELSE ss[0]) [] OTHER -> ss[0]],
      bs |-> Max2(Max2(s3, n2), Max2(n1, n0))]

(* hmm_vit_eval_5st_lr: the Sphinx-2 topology, every state with a self loop, a step and a skip; the routine adds
   whatever score the matrix holds for them (it never tests for "no transition") *)
Lr5(sen) ==
  LET s4 == sc[4] + Sen1(sen, 4)
      s3 == sc[3] + Sen1(sen, 3)
      exitOn == s3 > Worst
      x1 == s4 + tp[4][5]
      x2 == s3 + tp[3][5]
      fromFour == x1 > x2
      s5 == Clamp(IF fromFour THEN x1 ELSE x2)
      s2 == sc[2] + Sen1(sen, 2)
      on4 == s2 > Worst
      a0 == s4 + tp[4][4]
      a1 == s3 + tp[3][4]
      a2 == s2 + tp[2][4]
      pick4 == IF a0 > a1 THEN (IF a2 > a0 THEN 2 ELSE 4) ELSE (IF a2 > a1 THEN 2 ELSE 3)
      n4 == IF on4 THEN Clamp(CASE pick4 = 2 -> a2 [] pick4 = 3 -> a1 [] OTHER -> a0) ELSE sc[4]
      s1 == sc[1] + Sen1(sen, 1)
      on3 == s1 > Worst
      b0 == s3 + tp[3][3]
      b1 == s2 + tp[2][3]
      b2 == s1 + tp[1][3]
      pick3 == IF b0 > b1 THEN (IF b2 > b0 THEN 1 ELSE 3) ELSE (IF b2 > b1 THEN 1 ELSE 2)
      n3 == IF on3 THEN Clamp(CASE pick3 = 1 -> b2 [] pick3 = 2 -> b1 [] OTHER -> b0) ELSE sc[3]
      s0 == sc[0] + Sen1(sen, 0)
      c0 == s2 + tp[2][2]
      c1 == s1 + tp[1][2]
      c2 == s0 + tp[0][2]
      pick2 == IF c0 > c1 THEN (IF c2 > c0 THEN 0 ELSE 2) ELSE (IF c2 > c1 THEN 0 ELSE 1)
      n2 == Clamp(CASE pick2 = 0 -> c2 [] pick2 = 1 -> c1 [] OTHER -> c0)
      d0 == s1 + tp[1][1]
      d1 == s0 + tp[0][1]
      keep1 == d0 > d1
      n1 == Clamp(IF keep1 THEN d0 ELSE d1)
      n0 == Clamp(s0 + tp[0][0])
      b5 == IF exitOn THEN s5 ELSE Worst
      b4 == IF on4 /\ n4 > b5 THEN n4 ELSE b5
      b3 == IF on3 /\ n3 > b4 THEN n3 ELSE b4
  IN [sc |-> [i \in St |-> CASE i = 0 -> n0 [] i = 1 -> n1 [] i = 2 -> n2 [] i = 3 -> n3 [] OTHER -> n4],
      hi |-> [i \in St |-> CASE i = 4 -> (IF on4 THEN hi[pick4] ELSE hi[4]) [] i = 3 -> (IF on3 THEN hi[pick3] ELSE hi[3])
                               [] i = 2 -> hi[pick2] [] i = 1 -> (IF keep1 THEN hi[1] ELSE hi[0]) [] OTHER -> hi[0]],
      out |-> IF exitOn THEN s5 ELSE out,
      outh |-> IF exitOn THEN (IF fromFour THEN hi[4] ELSE hi[3]) ELSE outh,
      ss |-> ss,
      bs |-> Max2(Max2(b3, n2), Max2(n1, n0))]

(* hmm_vit_eval_5st_lr_mpx *)
Lr5Mpx(sen) ==
  LET dead(i) == ss[i] = Bad
      e(i) == IF dead(i) THEN Worst ELSE sc[i] + sen[ss[i]][i]       \* score + senone score, or the floor
      s4 == e(4)
      s3 == e(3)
      x1 == IF dead(4) THEN Worst ELSE s4 + tp[4][5]
      x2 == IF dead(3) THEN Worst ELSE s3 + tp[3][5]
      fromFour == x1 > x2
      s5 == Clamp(IF fromFour THEN x1 ELSE x2)
      s2 == e(2)
      a2 == IF dead(2) THEN Worst ELSE s2 + tp[2][4]
      a0 == IF s4 # Worst THEN s4 + tp[4][4] ELSE Worst
      a1 == IF s3 # Worst THEN s3 + tp[3][4] ELSE Worst
      pick4 == IF a0 > a1 THEN (IF a2 > a0 THEN 2 ELSE 4) ELSE (IF a2 > a1 THEN 2 ELSE 3)
      n4 == Clamp(CASE pick4 = 2 -> a2 [] pick4 = 3 -> a1 [] OTHER -> a0)
      s1 == e(1)
      b2 == IF dead(1) THEN Worst ELSE s1 + tp[1][3]
      b0 == IF s3 # Worst THEN s3 + tp[3][3] ELSE Worst
      b1 == IF s2 # Worst THEN s2 + tp[2][3] ELSE Worst
      pick3 == IF b0 > b1 THEN (IF b2 > b0 THEN 1 ELSE 3) ELSE (IF b2 > b1 THEN 1 ELSE 2)
      n3 == Clamp(CASE pick3 = 1 -> b2 [] pick3 = 2 -> b1 [] OTHER -> b0)
      s0 == sc[0] + sen[ss[0]][0]
      c0 == IF s2 # Worst THEN s2 + tp[2][2] ELSE Worst
      c1 == IF s1 # Worst THEN s1 + tp[1][2] ELSE Worst
      c2 == s0 + tp[0][2]
      pick2 == IF c0 > c1 THEN (IF c2 > c0 THEN 0 ELSE 2) ELSE (IF c2 > c1 THEN 0 ELSE 1)
      n2 == Clamp(CASE pick2 = 0 -> c2 [] pick2 = 1 -> c1 [] OTHER -> c0)
      d0 == IF s1 # Worst THEN s1 + tp[1][1] ELSE Worst
      d1 == s0 + tp[0][1]
      keep1 == d0 > d1
      n1 == Clamp(IF keep1 THEN d0 ELSE d1)
      n0 == Clamp(s0 + tp[0][0])
      src == [i \in St |-> CASE i = 4 -> pick4 [] i = 3 -> pick3 [] i = 2 -> pick2 [] i = 1 -> (IF keep1 THEN 1 ELSE 0) [] OTHER -> 0]
  IN [sc |-> [i \in St |-> CASE i = 0 -> n0 [] i = 1 -> n1 [] i = 2 -> n2 [] i = 3 -> n3 [] OTHER -> n4],
      hi |-> [i \in St |-> hi[src[i]]],
      out |-> s5,
      outh |-> IF fromFour THEN hi[4] ELSE hi[3],
      ss |-> [i \in St |-> ss[src[i]]],
      bs |-> Max2(Max2(Max2(s5, n4), Max2(n3, n2)), Max2(n1, n0))]

(* hmm_vit_eval_anytopo: candidates scanned from the state below down to state 0, strictly better wins *)
RECURSIVE Scan(_, _, _, _, _)
Scan(st, to, from, scr, bf) ==
  IF from < 0 THEN <<scr, bf>>
  ELSE LET ok == tp[from][to] > NoTr /\ st[from] + tp[from][to] > scr
       IN Scan(st, to, from - 1, IF ok THEN st[from] + tp[from][to] ELSE scr, IF ok THEN from ELSE bf)
AnyTopo(sen) ==
  LET senscr(i) == IF Mpx THEN (IF ss[i] = Bad THEN Worst ELSE sen[ss[i]][i]) ELSE Sen1(sen, i)
      st == [i \in St |-> IF i = 0 THEN sc[0] + senscr(0) ELSE Clamp(sc[i] + senscr(i))]
      ex == Scan(st, N, N - 1, Worst, -1)
      r == [to \in St |-> Scan(st, to, to - 1, IF tp[to][to] > NoTr THEN st[to] + tp[to][to] ELSE Worst, -1)]
      mx == Best({ex[1]} \cup {r[to][1] : to \in St})
  IN [sc |-> [to \in St |-> r[to][1]],
      hi |-> [to \in St |-> IF r[to][2] >= 0 THEN hi[r[to][2]] ELSE hi[to]],
      out |-> ex[1],
      outh |-> IF ex[2] >= 0 THEN hi[ex[2]] ELSE outh,
      ss |-> [to \in St |-> IF Mpx /\ r[to][2] >= 0 THEN ss[r[to][2]] ELSE ss[to]],
      bs |-> mx]

Evaluated(sen) == CASE Variant = "lr3" -> Lr3(sen) [] Variant = "lr3mpx" -> Lr3Mpx(sen) [] Variant = "lr5" -> Lr5(sen) [] Variant = "lr5mpx" -> Lr5Mpx(sen) [] OTHER -> AnyTopo(sen)

---------------------------------------------------------------------------
Cleared == /\ sc = [i \in St |-> Worst] /\ hi = [i \in St |-> -1] /\ out = Worst /\ outh = -1 /\ bs = Worst
           /\ paths = [i \in St |-> {}] /\ outp = {}
Init == /\ tp \in TPSet
        /\ Cleared
        /\ ss = [i \in St |-> Bad]
        /\ sid = <<>> /\ nid = 0 /\ fr = 0 /\ last = <<"init">> /\ okpick = TRUE

(* hmm_enter (and, for a multiplexed model, the caller's store of the entering path's senone sequence) *)
Enter(s, k) == /\ nid < MaxIds
               /\ nid' = nid + 1
               /\ sc' = [sc EXCEPT ![0] = s]
               /\ hi' = [hi EXCEPT ![0] = nid + 1]
               /\ ss' = IF Mpx THEN [ss EXCEPT ![0] = k] ELSE ss
               /\ sid' = Append(sid, k)
               /\ paths' = [paths EXCEPT ![0] = {<<nid + 1, s>>}]
               /\ last' = <<"enter", s, k>>
               /\ UNCHANGED <<tp, out, outh, bs, outp, fr, okpick>>

SenSet == [1 .. K -> [St -> SenVals]]
Eval(sen) == /\ paths[0] # {}
             /\ fr < MaxFrames
             /\ LET e == Evaluated(sen)
                IN sc' = e.sc /\ hi' = e.hi /\ out' = e.out /\ outh' = e.outh /\ ss' = e.ss /\ bs' = e.bs
             /\ IF ~Mpx
                THEN paths' = [j \in St |-> Moved(j, sen)] /\ outp' = Moved(N, sen) /\ okpick' = TRUE
                ELSE (* A multiplexed model is token passing by design: a state keeps ONE path, the best one now,  *)
                     (* although a path that is second now may do better later under its own senone sequence.    *)
                     (* Layer A for it: the path kept is a best one among those moved (ties: any); the ghost     *)
                     (* follows the object's choice.                                                               *)
                     LET e == Evaluated(sen)
                         Kept(M, h) == Sem!Kept(M, h)
                         Good(M, h, s) == Sem!Good(M, h, s)
                     IN /\ paths' = [j \in St |-> Kept(Moved(j, sen), e.hi[j])]
                        /\ outp' = Kept(Moved(N, sen), e.outh)
                        /\ okpick' = (Good(Moved(N, sen), e.outh, e.out) /\ \A j \in St : Good(Moved(j, sen), e.hi[j], e.sc[j]))
             /\ fr' = fr + 1
             /\ last' = <<"eval", sen>>
             /\ UNCHANGED <<tp, sid, nid>>

(* hmm_clear *)
Clear == /\ fr > 0
         /\ sc' = [i \in St |-> Worst] /\ hi' = [i \in St |-> -1] /\ out' = Worst /\ outh' = -1 /\ bs' = Worst
         /\ paths' = [i \in St |-> {}] /\ outp' = {}
         /\ ss' = ss                    \* hmm_clear leaves senid alone
         /\ last' = <<"clear">>
         /\ UNCHANGED <<tp, sid, nid, fr, okpick>>

(* hmm_normalize with the model's own best score *)
Norm == /\ last[1] = "eval" /\ bs > Worst /\ bs < 0
        /\ sc' = [i \in St |-> IF sc[i] > Worst THEN sc[i] - bs ELSE sc[i]]
        /\ out' = IF out > Worst THEN out - bs ELSE out
        /\ paths' = [i \in St |-> {<<p[1], p[2] - bs>> : p \in paths[i]}]
        /\ outp' = {<<p[1], p[2] - bs>> : p \in outp}
        /\ bs' = 0
        /\ last' = <<"norm", bs>>
        /\ UNCHANGED <<tp, hi, outh, ss, sid, nid, fr, okpick>>

Next == \/ \E s \in EnterVals, k \in 1 .. K : Enter(s, k)
        \/ \E sen \in SenSet : Eval(sen)
        \/ Clear
        \/ Norm
Spec == Init /\ [][Next]_vars
=============================================================================
