SPECIFICATION Spec
CONSTANTS
  N = 3
  Worst <- WorstC
  NoTr <- NoTrC
  Variant = "any"
  FixT2 = TRUE
  TPSet <- TPq
  K = 1
  SenVals <- SenA
  EnterVals <- EntC
  MaxIds = 2
  MaxFrames = 3
INVARIANTS Exact NoWrap BestBounds
VIEW TourView
CHECK_DEADLOCK FALSE
