------------------------------- MODULE HmmSem -------------------------------
(***************************************************************************)
(* Layer A of the per-frame Viterbi update of one HMM, free of any state:  *)
(* used by HmmStep (model checking of the transcribed routines) and by     *)
(* HmmTrace (validation of the real hmm_vit_eval).                         *)
(*   tp[i][j]   score of the transition i -> j (i in 0..n-1, j in 0..n,    *)
(*              j = n is the non-emitting exit); the value notr means      *)
(*              that the transition does not exist; only j >= i counts     *)
(*   paths[i]   set of <<entry identity, best score of a path with that    *)
(*              identity now in state i>>                                  *)
(*   sid[id]    the senone sequence the path with that identity uses       *)
(*   sen[k][i]  this frame's score of state i under senone sequence k      *)
(***************************************************************************)
EXTENDS Integers, FiniteSets, Sequences

Best(S) == CHOOSE x \in S : \A y \in S : x >= y
ScoresOf(P) == {p[2] : p \in P}
PerId(C) == {<<id, Best({c[2] : c \in {d \in C : d[1] = id}})>> : id \in {c[1] : c \in C}}
Exists(tp, notr, i, j) == i <= j /\ tp[i][j] > notr
(* every path moves along every transition into j that exists *)
Moved(tp, notr, n, paths, sid, j, sen) ==
  PerId(UNION {{<<p[1], p[2] + sen[sid[p[1]]][i] + tp[i][j]>> : p \in paths[i]} : i \in {k \in 0 .. n - 1 : Exists(tp, notr, k, j)}})
(* what an object must show for a state (or the exit) whose best paths are P *)
ShowsScore(P, s, worst) == IF P = {} THEN s <= worst ELSE s = Best(ScoresOf(P))
ShowsHist(P, s, h) == P = {} \/ <<h, s>> \in P
(* a multiplexed model passes ONE token per state: the path it keeps must be a best one among those moved *)
Kept(M, h) == {p \in M : p[1] = h}
Good(M, h, s) == M = {} \/ (<<h, s>> \in M /\ s = Best(ScoresOf(M)))
=============================================================================
