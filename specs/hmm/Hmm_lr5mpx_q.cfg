SPECIFICATION Spec
CONSTANTS
  N = 5
  Worst <- WorstC
  NoTr <- NoTrC
  Variant = "lr5mpx"
  FixT2 = TRUE
  TPSet <- T5_a
  K = 2
  SenVals <- SenA
  EnterVals <- EntC
  MaxIds = 2
  MaxFrames = 3
INVARIANTS Exact NoWrap BestBounds
VIEW TourView
CHECK_DEADLOCK FALSE
