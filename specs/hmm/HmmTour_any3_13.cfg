SPECIFICATION Spec
CONSTANTS
  N = 3
  Worst <- WorstC
  NoTr <- NoTrC
  Variant = "any"
  FixT2 = TRUE
  TPSet <- T_13
  K = 1
  SenVals <- SenA
  EnterVals <- EntC
  MaxIds = 2
  MaxFrames = 3
INVARIANTS Exact NoWrap BestBounds
ACTION_CONSTRAINT DumpEdge
VIEW TourView
CHECK_DEADLOCK FALSE
