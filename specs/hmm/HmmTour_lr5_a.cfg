SPECIFICATION Spec
CONSTANTS
  N = 5
  Worst <- WorstC
  NoTr <- NoTrC
  Variant = "lr5"
  FixT2 = TRUE
  TPSet <- T5_a
  K = 1
  SenVals <- SenA
  EnterVals <- EntC
  MaxIds = 1
  MaxFrames = 3
INVARIANTS Exact NoWrap BestBounds
ACTION_CONSTRAINT DumpEdge
VIEW TourView
CHECK_DEADLOCK FALSE
