------------------------------ MODULE HmmTrace ------------------------------
(***************************************************************************)
(* Recorded executions of the real HMM object (harness/hmm/hmm_drv.c:      *)
(* hmm_init, hmm_enter, hmm_vit_eval, hmm_clear, hmm_normalize on models   *)
(* with 2..5 emitting states, plain and multiplexed) checked against       *)
(* HmmSem, with the real magnitudes (WORST_SCORE = -2^29, senone scores    *)
(* down to -32767, transition scores down to -254).                        *)
(*                                                                         *)
(* Clauses "opt:..." say that the object shows the exact Viterbi step      *)
(* (C02 needs it of every phone model in the network).  They are           *)
(* evaluated while every path is far (Margin) from the floor WORST_SCORE,  *)
(* where clamping cannot interfere; "range:no-wrap" is evaluated always    *)
(* (C18's "path scores never wrap around", not a claimed property: noted). *)
(***************************************************************************)
EXTENDS Integers, Sequences, FiniteSets, TLC, Json, IOUtils

JTrace == ndJsonDeserialize(IOEnv.TRACE)
VARIABLES l, hdr, paths, outp, sid, reg
vars == <<l, hdr, paths, outp, sid, reg>>
Ev == JTrace[l]
Sem == INSTANCE HmmSem
Clause(name, cond) == IF cond THEN TRUE ELSE PrintT(<<"CLAUSE-FAILED", name, l>>) /\ FALSE
Margin == 4194304

F(t) == [i \in 0 .. Len(t) - 1 |-> t[i + 1]]
Tp == [i \in 0 .. hdr.n - 1 |-> F(hdr.tp[i + 1])]
St == 0 .. hdr.n - 1
Sc == F(Ev.sc)
Hi == F(Ev.hi)
Ss == F(Ev.ss)
InRange == /\ \A i \in St : Sc[i] <= 0 /\ Sc[i] >= 2 * hdr.worst
           /\ Ev.out <= 0 /\ Ev.out >= 2 * hdr.worst
FarFromFloor(P) == \A i \in St : \A p \in P[i] : p[2] > hdr.worst + Margin
Empty == [i \in St |-> {}]

TInit == l = 1 /\ hdr = [n |-> 0] /\ paths = <<>> /\ outp = {} /\ sid = <<>> /\ reg = TRUE /\ TLCSet(1, 0)

TNew == /\ Ev.e = "New"
        /\ hdr' = [n |-> Ev.n, mpx |-> Ev.mpx, k |-> Ev.k, tp |-> Ev.tp, worst |-> Ev.worst, notr |-> Ev.notr]
        /\ paths' = [i \in 0 .. Ev.n - 1 |-> {}] /\ outp' = {} /\ sid' = <<>> /\ reg' = TRUE
        /\ Clause("opt:new-model-is-dead", \A i \in 1 .. Ev.n : Ev.sc[i] = Ev.worst /\ Ev.out = Ev.worst)
TEnter == /\ Ev.e = "Enter"
          /\ sid' = [x \in DOMAIN sid \cup {Ev.id} |-> IF x = Ev.id THEN Ev.k ELSE sid[x]]
          /\ paths' = [paths EXCEPT ![0] = {<<Ev.id, Ev.s>>}]
          /\ Clause("opt:entered-path-is-in-state-0", Sc[0] = Ev.s /\ Hi[0] = Ev.id /\ (hdr.mpx => Ss[0] = Ev.k))
          /\ UNCHANGED <<hdr, outp, reg>>
TEval == /\ Ev.e = "Eval"
         /\ LET sen == [k \in 1 .. hdr.k |-> F(Ev.sen[k])]
                r == reg /\ FarFromFloor(paths)
                M(j) == Sem!Moved(Tp, hdr.notr, hdr.n, paths, sid, j, sen)
            IN /\ reg' = r
               /\ Clause("range:no-wrap", InRange)
               /\ IF ~r THEN paths' = paths /\ outp' = outp
                  ELSE IF ~hdr.mpx
                  THEN /\ paths' = [j \in St |-> M(j)] /\ outp' = M(hdr.n)
                       /\ Clause("opt:state-score-is-the-best-path-score", \A j \in St : Sem!ShowsScore(M(j), Sc[j], hdr.worst))
                       /\ Clause("opt:state-history-names-a-best-path", \A j \in St : Sem!ShowsHist(M(j), Sc[j], Hi[j]))
                       /\ Clause("opt:exit-score-is-the-best-path-score", Sem!ShowsScore(M(hdr.n), Ev.out, hdr.worst))
                       /\ Clause("opt:exit-history-names-a-best-path", Sem!ShowsHist(M(hdr.n), Ev.out, Ev.outh))
                  ELSE /\ paths' = [j \in St |-> Sem!Kept(M(j), Hi[j])] /\ outp' = Sem!Kept(M(hdr.n), Ev.outh)
                       /\ Clause("opt:token-kept-is-a-best-one", \A j \in St : Sem!Good(M(j), Hi[j], Sc[j]))
                       /\ Clause("opt:dead-state-stays-dead", \A j \in St : M(j) = {} => Sc[j] <= hdr.worst)
                       /\ Clause("opt:exit-token-is-a-best-one", Sem!Good(M(hdr.n), Ev.outh, Ev.out)
                                                                   /\ (M(hdr.n) = {} => Ev.out <= hdr.worst))
                       /\ Clause("opt:senone-sequence-follows-the-token", \A j \in St : M(j) # {} => Ss[j] = sid[Hi[j]])
               /\ Clause("opt:returned-best-is-the-stored-best", Ev.ret = Ev.bs)
               /\ (r => Clause("opt:reported-best-bounds-every-state",
                               (Ev.bs >= Ev.out \/ Ev.out <= hdr.worst) /\ \A j \in St : Ev.bs >= Sc[j] \/ Sc[j] <= hdr.worst))
         /\ UNCHANGED <<hdr, sid>>
TClear == /\ Ev.e = "Clear"
          /\ paths' = Empty /\ outp' = {} /\ reg' = TRUE
          /\ Clause("opt:cleared-model-is-dead", \A i \in St : Sc[i] = hdr.worst /\ Ev.out = hdr.worst)
          /\ UNCHANGED <<hdr, sid>>
TNorm == /\ Ev.e = "Norm"
         /\ paths' = [i \in St |-> {<<p[1], p[2] - Ev.b>> : p \in paths[i]}]
         /\ outp' = {<<p[1], p[2] - Ev.b>> : p \in outp}
         /\ Clause("range:no-wrap", InRange)
         /\ (reg => Clause("opt:normalised-scores", /\ \A j \in St : Sem!ShowsScore(paths'[j], Sc[j], hdr.worst)
                                                    /\ Sem!ShowsScore(outp', Ev.out, hdr.worst)))
         /\ UNCHANGED <<hdr, sid, reg>>

TNext == /\ l <= Len(JTrace)
         /\ (TNew \/ TEnter \/ TEval \/ TClear \/ TNorm)
         /\ l' = l + 1
         /\ TLCSet(1, l)
TSpec == TInit /\ [][TNext]_vars
Accepted == IF TLCGet(1) = Len(JTrace) THEN TRUE
            ELSE PrintT(<<"REJECTED-AT", TLCGet(1) + 1>>) /\ FALSE
=============================================================================
