------------------------------- MODULE MC_Hmm -------------------------------
EXTENDS HmmStep, Json
(* Transition matrices of the bounded instances.  Rows 0..N-1, columns 0..N; the lower triangle is "no transition". *)
Mat3(a01, a12, a23, k02, k13, d) ==
  [i \in 0 .. 2 |-> [j \in 0 .. 3 |->
     CASE i = j -> d
       [] <<i, j>> = <<0, 1>> -> a01 [] <<i, j>> = <<1, 2>> -> a12 [] <<i, j>> = <<2, 3>> -> a23
       [] <<i, j>> = <<0, 2>> -> k02 [] <<i, j>> = <<1, 3>> -> k13
       [] OTHER -> NoTr]]
(* every left-to-right 3-state topology: next-state scores from Nx, each skip absent or from Sk *)
TP3(Nx, Sk) == {Mat3(a, b, c, k, m, -1) : a \in Nx, b \in Nx, c \in Nx, k \in Sk \cup {NoTr}, m \in Sk \cup {NoTr}}
TP3sym(Nx, Sk) == {Mat3(a, b, c, k, k, -1) : a \in Nx, b \in Nx, c \in Nx, k \in Sk \cup {NoTr}}
TPq == TP3({-1, -2}, {-1})
TPt == TP3({-1, -2}, {-1, -3})
TPsym == TP3sym({-1, -2}, {-1, -3})
(* general topology on two emitting states, with and without the skip over state 1 and self loops *)
TP2 == {[i \in 0 .. 1 |-> [j \in 0 .. 2 |-> IF j < i THEN NoTr ELSE m[i * 3 + j + 1]]] :
          m \in {<<a, b, c, NoTr, d, e>> : a \in {-1, NoTr}, b \in {-1, -2}, c \in {-2, NoTr}, d \in {-1, NoTr}, e \in {-1, -2}}}

(* single matrices for the graph exports: no skip, both skips, only the skip into the exit (more probable than the step
   it skips - the shape that shows the stale t2), only the skip over state 1 *)
T_none == {Mat3(-1, -2, -1, NoTr, NoTr, -1)}
T_both == {Mat3(-2, -1, -1, -1, -3, -1)}
T_13 == {Mat3(-1, -2, -2, NoTr, -1, -1)}
T_02 == {Mat3(-1, -1, -2, -3, NoTr, -1)}
T2_a == {[i \in 0 .. 1 |-> [j \in 0 .. 2 |-> IF j < i THEN NoTr ELSE <<-1, -2, -2, NoTr, -1, -1>>[i * 3 + j + 1]]]}
T2_b == {[i \in 0 .. 1 |-> [j \in 0 .. 2 |-> IF j < i THEN NoTr ELSE <<-1, -1, NoTr, NoTr, -1, -2>>[i * 3 + j + 1]]]}
(* 5 states: self loop d, steps nx[i], skips sk[i] (all present: the topology the 5-state routine is written for) *)
Mat5(nx, sk, d) == [i \in 0 .. 4 |-> [j \in 0 .. 5 |-> CASE i = j -> d [] j = i + 1 -> nx[i + 1] [] j = i + 2 /\ j <= 5 -> sk[i + 1] [] OTHER -> NoTr]]
TP5 == {Mat5(<<-1, -2, -1, -2, -1>>, <<-1, -3, -1, -3>>, -1), Mat5(<<-2, -1, -1, -1, -2>>, <<-3, -1, -2, -1>>, -1),
        Mat5(<<-1, -1, -1, -1, -1>>, <<-2, -2, -2, -2>>, -2)}
(* a 5-state topology WITHOUT skips: the 5-state routine adds the score 255 of "no transition" like any other *)
T5_noskip == {Mat5(<<-1, -2, -1, -2, -1>>, <<NoTr, NoTr, NoTr, NoTr>>, -1)}
T5_a == {Mat5(<<-1, -2, -1, -2, -1>>, <<-1, -3, -1, -3>>, -1)}
WorstC == -1000
NoTrC == -255
SenA == {0, -2}
SenB == {0, -1, -3}
EntC == {-1, -3}
(* graph export: labels are tuples only *)
F2T(f) == [i \in 1 .. N |-> f[i - 1]]
Label == <<[i \in 1 .. N |-> F2T(tp[i - 1]) \o <<tp[i - 1][N]>>], F2T(sc), F2T(hi), out, outh, F2T(ss), bs, nid, fr>>
LabelN == <<[i \in 1 .. N |-> F2T(tp'[i - 1]) \o <<tp'[i - 1][N]>>], F2T(sc'), F2T(hi'), out', outh', F2T(ss'), bs', nid', fr'>>
ActJ == CASE last'[1] = "enter" -> [op |-> "enter", s |-> last'[2], k |-> last'[3]]
          [] last'[1] = "eval" -> [op |-> "eval", sen |-> [k \in 1 .. K |-> F2T(last'[2][k])]]
          [] OTHER -> [op |-> last'[1]]
DumpEdge == PrintT(<<"EDGE", ToJson([f |-> ToString(Label), a |-> ActJ, t |-> ToString(LabelN)])>>)
TourView == <<tp, sc, hi, out, outh, ss, bs, paths, outp, sid, okpick, nid, fr>>
=============================================================================
