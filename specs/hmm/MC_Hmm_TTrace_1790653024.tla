---- MODULE MC_Hmm_TTrace_1790653024 ----
EXTENDS Sequences, TLCExt, Toolbox, Naturals, TLC, MC_Hmm

_expression ==
    LET MC_Hmm_TEExpression == INSTANCE MC_Hmm_TEExpression
    IN MC_Hmm_TEExpression!expression
----

_trace ==
    LET MC_Hmm_TETrace == INSTANCE MC_Hmm_TETrace
    IN MC_Hmm_TETrace!trace
----

_inv ==
    ~(
        TLCGet("level") = Len(_TETrace)
        /\
        ss = ((0 :> 0 @@ 1 :> 0 @@ 2 :> 0 @@ 3 :> 0 @@ 4 :> 0))
        /\
        hi = ((0 :> 2 @@ 1 :> 2 @@ 2 :> 2 @@ 3 :> -1 @@ 4 :> -1))
        /\
        last = (<<"eval", <<(0 :> -2 @@ 1 :> -2 @@ 2 :> -2 @@ 3 :> -2 @@ 4 :> -2)>>>>)
        /\
        nid = (2)
        /\
        fr = (1)
        /\
        outh = (-1)
        /\
        out = (-1000)
        /\
        sid = (<<1, 1>>)
        /\
        sc = ((0 :> -6 @@ 1 :> -6 @@ 2 :> -260 @@ 3 :> -1000 @@ 4 :> -1000))
        /\
        bs = (-6)
        /\
        outp = ({})
        /\
        paths = ((0 :> {<<2, -6>>} @@ 1 :> {<<2, -6>>} @@ 2 :> {} @@ 3 :> {} @@ 4 :> {}))
        /\
        tp = ((0 :> (0 :> -1 @@ 1 :> -1 @@ 2 :> -255 @@ 3 :> -255 @@ 4 :> -255 @@ 5 :> -255) @@ 1 :> (0 :> -255 @@ 1 :> -1 @@ 2 :> -2 @@ 3 :> -255 @@ 4 :> -255 @@ 5 :> -255) @@ 2 :> (0 :> -255 @@ 1 :> -255 @@ 2 :> -1 @@ 3 :> -1 @@ 4 :> -255 @@ 5 :> -255) @@ 3 :> (0 :> -255 @@ 1 :> -255 @@ 2 :> -255 @@ 3 :> -1 @@ 4 :> -2 @@ 5 :> -255) @@ 4 :> (0 :> -255 @@ 1 :> -255 @@ 2 :> -255 @@ 3 :> -255 @@ 4 :> -1 @@ 5 :> -1)))
        /\
        okpick = (TRUE)
    )
----

_init ==
    /\ okpick = _TETrace[1].okpick
    /\ outh = _TETrace[1].outh
    /\ outp = _TETrace[1].outp
    /\ bs = _TETrace[1].bs
    /\ out = _TETrace[1].out
    /\ sid = _TETrace[1].sid
    /\ paths = _TETrace[1].paths
    /\ fr = _TETrace[1].fr
    /\ sc = _TETrace[1].sc
    /\ last = _TETrace[1].last
    /\ ss = _TETrace[1].ss
    /\ tp = _TETrace[1].tp
    /\ hi = _TETrace[1].hi
    /\ nid = _TETrace[1].nid
----

_next ==
    /\ \E i,j \in DOMAIN _TETrace:
        /\ \/ /\ j = i + 1
              /\ i = TLCGet("level")
        /\ okpick  = _TETrace[i].okpick
        /\ okpick' = _TETrace[j].okpick
        /\ outh  = _TETrace[i].outh
        /\ outh' = _TETrace[j].outh
        /\ outp  = _TETrace[i].outp
        /\ outp' = _TETrace[j].outp
        /\ bs  = _TETrace[i].bs
        /\ bs' = _TETrace[j].bs
        /\ out  = _TETrace[i].out
        /\ out' = _TETrace[j].out
        /\ sid  = _TETrace[i].sid
        /\ sid' = _TETrace[j].sid
        /\ paths  = _TETrace[i].paths
        /\ paths' = _TETrace[j].paths
        /\ fr  = _TETrace[i].fr
        /\ fr' = _TETrace[j].fr
        /\ sc  = _TETrace[i].sc
        /\ sc' = _TETrace[j].sc
        /\ last  = _TETrace[i].last
        /\ last' = _TETrace[j].last
        /\ ss  = _TETrace[i].ss
        /\ ss' = _TETrace[j].ss
        /\ tp  = _TETrace[i].tp
        /\ tp' = _TETrace[j].tp
        /\ hi  = _TETrace[i].hi
        /\ hi' = _TETrace[j].hi
        /\ nid  = _TETrace[i].nid
        /\ nid' = _TETrace[j].nid

\* Uncomment the ASSUME below to write the states of the error trace
\* to the given file in Json format. Note that you can pass any tuple
\* to `JsonSerialize`. For example, a sub-sequence of _TETrace.
    \* ASSUME
    \*     LET J == INSTANCE Json
    \*         IN J!JsonSerialize("MC_Hmm_TTrace_1790653024.json", _TETrace)

=============================================================================

 Note that you can extract this module `MC_Hmm_TEExpression`
  to a dedicated file to reuse `expression` (the module in the 
  dedicated `MC_Hmm_TEExpression.tla` file takes precedence 
  over the module `MC_Hmm_TEExpression` below).

---- MODULE MC_Hmm_TEExpression ----
EXTENDS Sequences, TLCExt, Toolbox, Naturals, TLC, MC_Hmm

expression == 
    [
        \* To hide variables of the `MC_Hmm` spec from the error trace,
        \* remove the variables below.  The trace will be written in the order
        \* of the fields of this record.
        okpick |-> okpick
        ,outh |-> outh
        ,outp |-> outp
        ,bs |-> bs
        ,out |-> out
        ,sid |-> sid
        ,paths |-> paths
        ,fr |-> fr
        ,sc |-> sc
        ,last |-> last
        ,ss |-> ss
        ,tp |-> tp
        ,hi |-> hi
        ,nid |-> nid
        
        \* Put additional constant-, state-, and action-level expressions here:
        \* ,_stateNumber |-> _TEPosition
        \* ,_okpickUnchanged |-> okpick = okpick'
        
        \* Format the `okpick` variable as Json value.
        \* ,_okpickJson |->
        \*     LET J == INSTANCE Json
        \*     IN J!ToJson(okpick)
        
        \* Lastly, you may build expressions over arbitrary sets of states by
        \* leveraging the _TETrace operator.  For example, this is how to
        \* count the number of times a spec variable changed up to the current
        \* state in the trace.
        \* ,_okpickModCount |->
        \*     LET F[s \in DOMAIN _TETrace] ==
        \*         IF s = 1 THEN 0
        \*         ELSE IF _TETrace[s].okpick # _TETrace[s-1].okpick
        \*             THEN 1 + F[s-1] ELSE F[s-1]
        \*     IN F[_TEPosition - 1]
    ]

=============================================================================



Parsing and semantic processing can take forever if the trace below is long.
 In this case, it is advised to uncomment the module below to deserialize the
 trace from a generated binary file.

\*
\*---- MODULE MC_Hmm_TETrace ----
\*EXTENDS IOUtils, TLC, MC_Hmm
\*
\*trace == IODeserialize("MC_Hmm_TTrace_1790653024.bin", TRUE)
\*
\*=============================================================================
\*

---- MODULE MC_Hmm_TETrace ----
EXTENDS TLC, MC_Hmm

trace == 
    <<
    ([ss |-> (0 :> 0 @@ 1 :> 0 @@ 2 :> 0 @@ 3 :> 0 @@ 4 :> 0),hi |-> (0 :> -1 @@ 1 :> -1 @@ 2 :> -1 @@ 3 :> -1 @@ 4 :> -1),last |-> <<"init">>,nid |-> 0,fr |-> 0,outh |-> -1,out |-> -1000,sid |-> <<>>,sc |-> (0 :> -1000 @@ 1 :> -1000 @@ 2 :> -1000 @@ 3 :> -1000 @@ 4 :> -1000),bs |-> -1000,outp |-> {},paths |-> (0 :> {} @@ 1 :> {} @@ 2 :> {} @@ 3 :> {} @@ 4 :> {}),tp |-> (0 :> (0 :> -1 @@ 1 :> -1 @@ 2 :> -255 @@ 3 :> -255 @@ 4 :> -255 @@ 5 :> -255) @@ 1 :> (0 :> -255 @@ 1 :> -1 @@ 2 :> -2 @@ 3 :> -255 @@ 4 :> -255 @@ 5 :> -255) @@ 2 :> (0 :> -255 @@ 1 :> -255 @@ 2 :> -1 @@ 3 :> -1 @@ 4 :> -255 @@ 5 :> -255) @@ 3 :> (0 :> -255 @@ 1 :> -255 @@ 2 :> -255 @@ 3 :> -1 @@ 4 :> -2 @@ 5 :> -255) @@ 4 :> (0 :> -255 @@ 1 :> -255 @@ 2 :> -255 @@ 3 :> -255 @@ 4 :> -1 @@ 5 :> -1)),okpick |-> TRUE]),
    ([ss |-> (0 :> 0 @@ 1 :> 0 @@ 2 :> 0 @@ 3 :> 0 @@ 4 :> 0),hi |-> (0 :> 1 @@ 1 :> -1 @@ 2 :> -1 @@ 3 :> -1 @@ 4 :> -1),last |-> <<"enter", -3, 1>>,nid |-> 1,fr |-> 0,outh |-> -1,out |-> -1000,sid |-> <<1>>,sc |-> (0 :> -3 @@ 1 :> -1000 @@ 2 :> -1000 @@ 3 :> -1000 @@ 4 :> -1000),bs |-> -1000,outp |-> {},paths |-> (0 :> {<<1, -3>>} @@ 1 :> {} @@ 2 :> {} @@ 3 :> {} @@ 4 :> {}),tp |-> (0 :> (0 :> -1 @@ 1 :> -1 @@ 2 :> -255 @@ 3 :> -255 @@ 4 :> -255 @@ 5 :> -255) @@ 1 :> (0 :> -255 @@ 1 :> -1 @@ 2 :> -2 @@ 3 :> -255 @@ 4 :> -255 @@ 5 :> -255) @@ 2 :> (0 :> -255 @@ 1 :> -255 @@ 2 :> -1 @@ 3 :> -1 @@ 4 :> -255 @@ 5 :> -255) @@ 3 :> (0 :> -255 @@ 1 :> -255 @@ 2 :> -255 @@ 3 :> -1 @@ 4 :> -2 @@ 5 :> -255) @@ 4 :> (0 :> -255 @@ 1 :> -255 @@ 2 :> -255 @@ 3 :> -255 @@ 4 :> -1 @@ 5 :> -1)),okpick |-> TRUE]),
    ([ss |-> (0 :> 0 @@ 1 :> 0 @@ 2 :> 0 @@ 3 :> 0 @@ 4 :> 0),hi |-> (0 :> 2 @@ 1 :> -1 @@ 2 :> -1 @@ 3 :> -1 @@ 4 :> -1),last |-> <<"enter", -3, 1>>,nid |-> 2,fr |-> 0,outh |-> -1,out |-> -1000,sid |-> <<1, 1>>,sc |-> (0 :> -3 @@ 1 :> -1000 @@ 2 :> -1000 @@ 3 :> -1000 @@ 4 :> -1000),bs |-> -1000,outp |-> {},paths |-> (0 :> {<<2, -3>>} @@ 1 :> {} @@ 2 :> {} @@ 3 :> {} @@ 4 :> {}),tp |-> (0 :> (0 :> -1 @@ 1 :> -1 @@ 2 :> -255 @@ 3 :> -255 @@ 4 :> -255 @@ 5 :> -255) @@ 1 :> (0 :> -255 @@ 1 :> -1 @@ 2 :> -2 @@ 3 :> -255 @@ 4 :> -255 @@ 5 :> -255) @@ 2 :> (0 :> -255 @@ 1 :> -255 @@ 2 :> -1 @@ 3 :> -1 @@ 4 :> -255 @@ 5 :> -255) @@ 3 :> (0 :> -255 @@ 1 :> -255 @@ 2 :> -255 @@ 3 :> -1 @@ 4 :> -2 @@ 5 :> -255) @@ 4 :> (0 :> -255 @@ 1 :> -255 @@ 2 :> -255 @@ 3 :> -255 @@ 4 :> -1 @@ 5 :> -1)),okpick |-> TRUE]),
    ([ss |-> (0 :> 0 @@ 1 :> 0 @@ 2 :> 0 @@ 3 :> 0 @@ 4 :> 0),hi |-> (0 :> 2 @@ 1 :> 2 @@ 2 :> 2 @@ 3 :> -1 @@ 4 :> -1),last |-> <<"eval", <<(0 :> -2 @@ 1 :> -2 @@ 2 :> -2 @@ 3 :> -2 @@ 4 :> -2)>>>>,nid |-> 2,fr |-> 1,outh |-> -1,out |-> -1000,sid |-> <<1, 1>>,sc |-> (0 :> -6 @@ 1 :> -6 @@ 2 :> -260 @@ 3 :> -1000 @@ 4 :> -1000),bs |-> -6,outp |-> {},paths |-> (0 :> {<<2, -6>>} @@ 1 :> {<<2, -6>>} @@ 2 :> {} @@ 3 :> {} @@ 4 :> {}),tp |-> (0 :> (0 :> -1 @@ 1 :> -1 @@ 2 :> -255 @@ 3 :> -255 @@ 4 :> -255 @@ 5 :> -255) @@ 1 :> (0 :> -255 @@ 1 :> -1 @@ 2 :> -2 @@ 3 :> -255 @@ 4 :> -255 @@ 5 :> -255) @@ 2 :> (0 :> -255 @@ 1 :> -255 @@ 2 :> -1 @@ 3 :> -1 @@ 4 :> -255 @@ 5 :> -255) @@ 3 :> (0 :> -255 @@ 1 :> -255 @@ 2 :> -255 @@ 3 :> -1 @@ 4 :> -2 @@ 5 :> -255) @@ 4 :> (0 :> -255 @@ 1 :> -255 @@ 2 :> -255 @@ 3 :> -255 @@ 4 :> -1 @@ 5 :> -1)),okpick |-> TRUE])
    >>
----


=============================================================================

---- CONFIG MC_Hmm_TTrace_1790653024 ----
CONSTANTS
    N = 5
    Worst <- WorstC
    NoTr <- NoTrC
    Variant = "lr5"
    FixT2 = TRUE
    TPSet <- T5_noskip
    K = 1
    SenVals <- SenA
    EnterVals <- EntC
    MaxIds = 2
    MaxFrames = 4

INVARIANT
    _inv

CHECK_DEADLOCK
    \* CHECK_DEADLOCK off because of PROPERTY or INVARIANT above.
    FALSE

INIT
    _init

NEXT
    _next

CONSTANT
    _TETrace <- _trace

ALIAS
    _expression
=============================================================================
\* Generated on Tue Sep 29 03:37:06 UTC 2026