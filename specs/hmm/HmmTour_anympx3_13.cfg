SPECIFICATION Spec
CONSTANTS
  N = 3
  Worst <- WorstC
  NoTr <- NoTrC
  Variant = "anympx"
  FixT2 = TRUE
  TPSet <- T_13
  K = 2
  SenVals <- SenA
  EnterVals <- EntC
  MaxIds = 2
  MaxFrames = 2
INVARIANTS Exact NoWrap BestBounds
ACTION_CONSTRAINT DumpEdge
VIEW TourView
CHECK_DEADLOCK FALSE
