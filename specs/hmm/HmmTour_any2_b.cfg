SPECIFICATION Spec
CONSTANTS
  N = 2
  Worst <- WorstC
  NoTr <- NoTrC
  Variant = "any"
  FixT2 = TRUE
  TPSet <- T2_b
  K = 1
  SenVals <- SenA
  EnterVals <- EntC
  MaxIds = 2
  MaxFrames = 3
INVARIANTS Exact NoWrap BestBounds
ACTION_CONSTRAINT DumpEdge
VIEW TourView
CHECK_DEADLOCK FALSE
