SPECIFICATION Spec
CONSTANTS
  N = 5
  Worst <- WorstC
  NoTr <- NoTrC
  Variant = "any"
  FixT2 = TRUE
  TPSet <- T5_a
  K = 1
  SenVals <- SenA
  EnterVals <- EntC
  MaxIds = 2
  MaxFrames = 4
INVARIANTS Exact NoWrap BestBounds
VIEW TourView
CHECK_DEADLOCK FALSE
