SPECIFICATION Spec
CONSTANTS
  NS = 3
  Words <- W_a
  Weights <- Wt2
  SilWords <- Sil1
  SilLps <- Sl1
  SilStates <- St2
  AltPairs <- Alt2
  K = 2
  MaxArcs = 2
  MaxLinks = 8
INVARIANTS TypeOK NoFatal BitsOK
ACTION_CONSTRAINT DumpEdge
VIEW TourView
CHECK_DEADLOCK FALSE
