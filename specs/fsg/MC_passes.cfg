SPECIFICATION SpecNulls
CONSTANTS
  NS = 4
  Words <- W_none
  Weights <- Wt3
  SilWords <- W_none
  SilLps <- Sl1
  SilStates <- St1
  AltPairs <- NoPairs
  K = 2
  MaxArcs = 4
  MaxLinks = 6
INVARIANTS AtMostTwoPasses
CHECK_DEADLOCK FALSE
