------------------------------ MODULE FsgAbs ------------------------------
(***************************************************************************)
(* Layer A for property C13: a finite-state grammar is a SET of arcs       *)
(* <<from, to, word, logp>> (word "" = null transition, logp an integer    *)
(* log-probability <= 0, already scaled by the language weight), and the   *)
(* grammar transformations of fsg_model.c are defined by what they mean,   *)
(* not by how the C code computes them.  Nothing here knows about hash     *)
(* tables, link lists, word ids or passes of a closure loop.               *)
(*                                                                         *)
(*   Norm(A)            one arc per (from, to, word): the best one          *)
(*   Closure(A, N)      word arcs unchanged; for every ordered pair i # j   *)
(*                      joined by a null path, the null arc i -> j with the *)
(*                      best (max-sum) null-path weight; no null self-loops *)
(*   AddSilence         a self-loop labelled with the filler on every state *)
(*                      (or one state), merged with an existing one (best)  *)
(*   AddAlt             every arc labelled base copied with label alt       *)
(*   Project(A,sil,alt) the arcs as a recogniser of REAL words: alternates  *)
(*                      relabelled with their base word, fillers erased     *)
(*                      (relabelled "", weight kept).  Its language is      *)
(*                      RealWords applied to the language of A.             *)
(*   WLang(G, A, k)     {<<sentence, best log-prob>>} for sentences <= k    *)
(*                                                                         *)
(* The property: WLang(Project(T(A))) = WLang(Project(A)) for T = closure, *)
(* silence addition, alternate addition (filler arcs keep their penalty as *)
(* a weight <= 0, so the best path of a real-word sequence never pays it: *)
(* "apart from the configured filler penalties"), T(T(A)) = T(A) for       *)
(* closure and silence addition, and write-then-read is the identity up to *)
(* the printed precision (RoundTrip* predicates at the end).               *)
(***************************************************************************)
EXTENDS Regular, TLC

A4(a) == <<a[1], a[2], a[3], a[4]>>
Arcs4(S) == {A4(a) : a \in S}

SameKey(a, b) == a[1] = b[1] /\ a[2] = b[2] /\ a[3] = b[3]
Norm(A) == {a \in A : \A b \in A : SameKey(a, b) => b[4] <= a[4]}

(***************************************************************************)
(* The operations, by definition.                                          *)
(***************************************************************************)
TransAdd(A, f, t, w, lp) == Norm(A \cup {<<f, t, w, lp>>})

NullAdd(A, f, t, lp) == IF f = t THEN A ELSE Norm(A \cup {<<f, t, EPS, lp>>})
\* fsg_model.h: 1 = new transition, 0 = existing one upgraded, -1 = nothing changed
NullAddRet(A, f, t, lp) ==
    IF f = t THEN -1
    ELSE LET old == {a \in A : a[1] = f /\ a[2] = t /\ a[3] = EPS}
         IN IF old = {} THEN 1
            ELSE IF \A a \in old : a[4] < lp THEN 0 ELSE -1

\* best null-path weight from i to every state (NEGINF = none); the empty path gives 0 at i
EpsBestFrom(A, N, i) == EpsRelax(A, N, [s \in N |-> IF s = i THEN 0 ELSE NEGINF])

Closure(A, N) ==
    LET best == [i \in N |-> EpsBestFrom(A, N, i)]
    IN {a \in A : a[3] # EPS} \cup
       {<<p[1], p[2], EPS, best[p[1]][p[2]]>> : p \in {q \in N \X N : q[1] # q[2] /\ best[q[1]][q[2]] > NEGINF}}

\* what "closed" means for a user of the grammar (fsg_search follows ONE null arc between words)
IsClosed(A, N) ==
    LET best == [i \in N |-> EpsBestFrom(A, N, i)]
    IN \A i, j \in N : (i # j /\ best[i][j] > NEGINF) => <<i, j, EPS, best[i][j]>> \in A

AddSilence(A, N, w, lp, state) ==
    Norm(A \cup {<<s, s, w, lp>> : s \in IF state = -1 THEN N ELSE {state}})

AddAlt(A, base, alt) == Norm(A \cup {<<a[1], a[2], alt, a[4]>> : a \in {x \in A : x[3] = base}})

(***************************************************************************)
(* Real words.  silw = words marked as fillers, altm = function alternate  *)
(* -> base word (only alternates are in its domain).                       *)
(***************************************************************************)
Base(altm, w) == IF w \in DOMAIN altm THEN altm[w] ELSE w
IsFillerWord(silw, altm, w) == w \in silw \/ Base(altm, w) \in silw

RECURSIVE RealWords(_, _, _)
RealWords(silw, altm, ws) ==
    IF ws = <<>> THEN <<>>
    ELSE (IF IsFillerWord(silw, altm, Head(ws)) THEN <<>> ELSE <<Base(altm, Head(ws))>>)
         \o RealWords(silw, altm, Tail(ws))

Project(A, silw, altm) ==
    {<<a[1], a[2], IF a[3] = EPS \/ IsFillerWord(silw, altm, a[3]) THEN EPS ELSE Base(altm, a[3]), a[4]>> : a \in A}

(***************************************************************************)
(* Weighted language up to length k in one walk over the prefix tree:      *)
(* sc = best score per state after reading pre.                            *)
(***************************************************************************)
Live(N, sc) == {s \in N : sc[s] > NEGINF}

RECURSIVE WLangFrom(_, _, _, _, _, _)
WLangFrom(A, N, final, sc, pre, k) ==
    (IF sc[final] > NEGINF THEN {<<pre, sc[final]>>} ELSE {}) \cup
    (IF k = 0 THEN {}
     ELSE UNION {WLangFrom(A, N, final, EpsRelax(A, N, WordRelax(A, N, sc, w)), Append(pre, w), k - 1) :
                 w \in OutWords(A, Live(N, sc))})

\* {<<sentence, best log-prob>>} of the grammar with arcs A, states N, from start to final
WLang(A, N, start, final, k) ==
    WLangFrom(A, N, final, EpsRelax(A, N, [s \in N |-> IF s = start THEN 0 ELSE NEGINF]), <<>>, k)

\* the real-word semantics of a grammar
RealWLang(A, N, start, final, silw, altm, k) == WLang(Project(A, silw, altm), N, start, final, k)

(* T preserved the grammar: same real-word sentences (length <= k) with the same best log-prob. *)
Preserves(Abefore, Aafter, N, start, final, silw, altm, k) ==
    RealWLang(Aafter, N, start, final, silw, altm, k) = RealWLang(Abefore, N, start, final, silw, altm, k)

(* The same for EVERY final state at once: the best-score vector after every prefix that can be read *)
(* from `start' (a pair <<pre, sc>> with sc[f] > NEGINF says pre is a sentence for final state f).   *)
RECURSIVE WVecFrom(_, _, _, _, _)
WVecFrom(A, N, sc, pre, k) ==
    {<<pre, sc>>} \cup
    (IF k = 0 THEN {}
     ELSE UNION {WVecFrom(A, N, EpsRelax(A, N, WordRelax(A, N, sc, w)), Append(pre, w), k - 1) :
                 w \in OutWords(A, Live(N, sc))})
WVec(A, N, start, k) == WVecFrom(A, N, EpsRelax(A, N, [s \in N |-> IF s = start THEN 0 ELSE NEGINF]), <<>>, k)
PreservesAllFinals(Abefore, Aafter, N, start, silw, altm, k) ==
    WVec(Project(Aafter, silw, altm), N, start, k) = WVec(Project(Abefore, silw, altm), N, start, k)

(***************************************************************************)
(* The same thing as a state machine: the refinement target of             *)
(* FsgModelImpl.  g = [arcs (normal form), words, silw (words marked as    *)
(* fillers), altm (alternate -> base word)], last = the most recent call   *)
(* and what it reported.                                                   *)
(***************************************************************************)
\* alternates resolve to an ultimate base word; a word is never its own alternate
AltMapAdd(altm, base, alt) ==
    LET nb == Base(altm, base)
    IN IF alt = nb THEN altm
       ELSE [x \in (DOMAIN altm \cup {alt}) \ {nb} |-> IF x = alt THEN nb ELSE IF altm[x] = alt THEN nb ELSE altm[x]]

GEmpty == [arcs |-> {}, words |-> {}, silw |-> {}, altm |-> <<>>]

GTrans(g, f, t, w, lp) == [g EXCEPT !.arcs = TransAdd(@, f, t, w, lp), !.words = @ \cup {w}]
GWord(g, w) == [g EXCEPT !.words = @ \cup {w}]
GNull(g, f, t, lp) == [g EXCEPT !.arcs = NullAdd(@, f, t, lp)]
GClosure(g, N) == [g EXCEPT !.arcs = Closure(@, N)]
GSil(g, N, w, state, lp) == [g EXCEPT !.arcs = AddSilence(@, N, w, lp, state), !.words = @ \cup {w}, !.silw = @ \cup {w}]
\* fsg_model_add_alt refuses (-1) a base word the grammar does not know; an alternate of a filler is a filler
GAltOK(g, base) == base \in g.words
GAlt(g, base, alt) ==
    IF ~GAltOK(g, base) THEN g
    ELSE [g EXCEPT !.arcs = AddAlt(@, base, alt), !.words = @ \cup {alt},
                   !.silw = IF base \in @ THEN @ \cup {alt} ELSE @,
                   !.altm = AltMapAdd(@, base, alt)]

(***************************************************************************)
(* Write / read.  A file is what an independent reader of the documented   *)
(* format sees: [ok, name, n, s, f, arcs = <<from, to, word, -, pn>>] with *)
(* pn the printed probability in units of 1e-9.  A grammar dump carries,   *)
(* for every arc, pn = round(1e9 * base^(logp / lw)): the probability the  *)
(* integer weight denotes.                                                 *)
(*                                                                         *)
(* The reader closes null transitions, so the grammar read back is         *)
(* compared with the closure of the one written (the identity for every    *)
(* grammar that went through the reader, the JSGF compiler or an explicit  *)
(* closure).                                                               *)
(***************************************************************************)
Key3(a) == <<a[1], a[2], a[3]>>
Keys3(S) == {Key3(a) : a \in S}
BestPn(S, key) == MaxOf({a[5] : a \in {x \in S : Key3(x) = key}})
Abs(x) == IF x < 0 THEN -x ELSE x

MICRO == 1000           \* printed precision: 6 decimals, in units of 1e-9

\* the file says what the grammar is: same size, start, final, arcs, probabilities as printed
\* (the writer may lose what %f cannot show: half a unit of the last place)
WriteShape(file, n, s, f, arcs) ==
    /\ file.ok /\ file.n = n /\ file.s = s /\ file.f = f
    /\ Keys3(ToSet(file.arcs)) = Keys3(arcs)

\* tol: allowed difference of probabilities in units of 1e-9
ProbsWithin(S1, S2, tol(_, _)) ==
    \A key \in Keys3(S1) \cap Keys3(S2) :
        Abs(BestPn(S1, key) - BestPn(S2, key)) <= tol(key, BestPn(S1, key))
=============================================================================
