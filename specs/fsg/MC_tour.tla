------------------------------ MODULE MC_tour ------------------------------
(* Small instances of FsgModelImpl whose complete labelled state graph is exported (one JSON line  *)
(* per generated transition) so that tools/vlib/tours.py can cover every (grammar state, call)     *)
(* edge with call sequences that are then executed on the real fsg_model.c.                        *)
EXTENDS MC_impl, Json
TourView == NoLastView
\* a state's name must not depend on how a record was built (TLC prints the fields of [wid, lp] in
\* construction order): links as tuples
Canon == <<vocab, [p \in Pairs |-> [x \in DOMAIN tr[p] |-> <<tr[p][x].wid, tr[p][x].lp>>]], nl,
           silbits, altbits, hassil, hasalt, galt, fatal>>
DumpEdge == PrintT(<<"EDGE", ToJson([f |-> ToString(Canon), a |-> last', t |-> ToString(Canon')])>>)
=============================================================================
