SPECIFICATION SpecNullsUp
CONSTANTS
  NS = 3
  Words <- W_none
  Weights <- Wt3
  SilWords <- W_none
  SilLps <- Sl1
  SilStates <- St1
  AltPairs <- NoPairs
  K = 2
  MaxArcs = 6
  MaxLinks = 6
INVARIANTS TypeOK NoFatal
PROPERTIES RefinesStep Preserved Idempotent
VIEW NoLastView
CHECK_DEADLOCK FALSE
