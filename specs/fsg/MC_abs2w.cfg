SPECIFICATION ASpecFamily
CONSTANTS
  NS = 2
  Words <- W_ab
  Weights <- Wt3
  SilWords <- Sil2
  SilLps <- Sl1
  SilStates <- St2
  AltPairs <- Alt3
  K = 3
  MaxA = 3
INVARIANTS ATypeOK
PROPERTIES APreserved AIdempotent
VIEW GView
CHECK_DEADLOCK FALSE
