SPECIFICATION ASpecFamily
CONSTANTS
  NS = 3
  Words <- W_a
  Weights <- Wt2
  SilWords <- Sil1
  SilLps <- Sl1
  SilStates <- St1
  AltPairs <- Alt2
  K = 3
  MaxA = 3
INVARIANTS ATypeOK
PROPERTIES APreserved AIdempotent
VIEW GView
CHECK_DEADLOCK FALSE
