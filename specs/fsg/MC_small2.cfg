SPECIFICATION Spec
CONSTANTS
  NS = 2
  Words <- W_a
  Weights <- Wt2
  SilWords <- Sil1
  SilLps <- Sl1
  SilStates <- St2
  AltPairs <- Alt2
  K = 3
  MaxArcs = 2
  MaxLinks = 8
INVARIANTS TypeOK NoFatal BitsOK
PROPERTIES RefinesInit RefinesStep Preserved Idempotent
CHECK_DEADLOCK FALSE
