---------------------------- MODULE FsgAbsSpec ----------------------------
(***************************************************************************)
(* Layer A of C13 as a state machine (refinement target of FsgModelImpl)   *)
(* together with the statements of the property as action properties.      *)
(* g = [arcs, words, silw, altm] (see FsgAbs), last = most recent call.    *)
(***************************************************************************)
EXTENDS FsgAbs

CONSTANTS NS,        \* number of states, 0..NS-1
          Words,     \* labels used by trans_add
          Weights,   \* integer log-probs of arcs (<= 0)
          SilWords,  \* words handed to add_silence
          SilLps,    \* filler penalties as integer weights (<= 0)
          SilStates, \* state arguments of add_silence (-1 = every state)
          AltPairs,  \* <<base, alt>> handed to add_alt
          K          \* sentence length bound of the language comparison

VARIABLES g, last

N == 0..(NS - 1)

\* a configuration in which "real word" is well defined: an alternate has one base, and a filler is
\* not made the alternate of a real word
AltSane(gg, base, alt) ==
    /\ alt \in DOMAIN gg.altm => gg.altm[alt] = Base(gg.altm, base)
    /\ alt \in gg.silw => IsFillerWord(gg.silw, gg.altm, base)

AInit == g = GEmpty /\ last = [op |-> "new", ret |-> 0]

ATrans(f, t, w, lp) == g' = GTrans(g, f, t, w, lp) /\ last' = [op |-> "trans", f |-> f, t |-> t, w |-> w, lp |-> lp, ret |-> 0]
ANull(f, t, lp) == g' = GNull(g, f, t, lp) /\ last' = [op |-> "null", f |-> f, t |-> t, lp |-> lp, ret |-> NullAddRet(g.arcs, f, t, lp)]
AClosure == g' = GClosure(g, N) /\ last' = [op |-> "closure", ret |-> 0]
ASil(w, state, lp) == g' = GSil(g, N, w, state, lp) /\
                      last' = [op |-> "sil", w |-> w, state |-> state, lp |-> lp, ret |-> IF state = -1 THEN NS ELSE 1]
AAlt(base, alt) == /\ AltSane(g, base, alt)
                   /\ g' = GAlt(g, base, alt)
                   /\ last' = [op |-> "alt", base |-> base, alt |-> alt, ret |-> IF GAltOK(g, base) THEN 0 ELSE -1]

ANext == \/ \E f, t \in N, w \in Words, lp \in Weights : ATrans(f, t, w, lp)
         \/ \E f, t \in N, lp \in Weights : ANull(f, t, lp)
         \/ AClosure
         \/ \E w \in SilWords, st \in SilStates, lp \in SilLps : ASil(w, st, lp)
         \/ \E p \in AltPairs : AAlt(p[1], p[2])

ASpec == AInit /\ [][ANext]_<<g, last>>

(***************************************************************************)
(* The property.                                                           *)
(***************************************************************************)
IsXform(l) == l.op \in {"closure", "sil", "alt"}

\* the transformations do not change the real-word sentences nor their best log-probs,
\* whatever the final state (start state 0: the instances are closed under renaming of states)
APreserved == [][IsXform(last') => PreservesAllFinals(g.arcs, g'.arcs, N, 0, g'.silw, g'.altm, K)]_<<g, last>>

\* closing twice / adding silence twice changes nothing further; a closed grammar is closed
AIdempotent == [][/\ last'.op = "closure" => (Closure(g'.arcs, N) = g'.arcs /\ IsClosed(g'.arcs, N))
                  /\ last'.op = "sil" => GSil(g', N, last'.w, last'.state, last'.lp) = g']_<<g, last>>

ATypeOK == /\ g.arcs = Norm(g.arcs)
           /\ \A a \in g.arcs : a[1] \in N /\ a[2] \in N /\ a[4] <= 0 /\ (a[3] = EPS => a[1] # a[2])
           /\ {a[3] : a \in g.arcs} \ {EPS} \subseteq g.words
=============================================================================
