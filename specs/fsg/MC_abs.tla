------------------------------ MODULE MC_abs ------------------------------
(***************************************************************************)
(* Layer A on its own: the C13 statements (APreserved, AIdempotent) are    *)
(* theorems of the DEFINITIONS in FsgAbs.  Checked from every grammar of a *)
(* family (arcs over the given words and null arcs, at most MaxA arcs),    *)
(* under every sequence of transformations.                                *)
(***************************************************************************)
EXTENDS FsgAbsSpec
CONSTANT MaxA
W_a == {"a"}
W_ab == {"a", "b"}
Sil1 == {"<sil>"}
Sil2 == {"<sil>", "a"}           \* a grammar word declared a filler
Alt2 == {<<"a", "a(2)">>, <<"<sil>", "<sil>(2)">>}
Alt3 == {<<"a", "a(2)">>, <<"<sil>", "<sil>(2)">>, <<"a", "b">>}
Wt2 == {0, -1}
Wt3 == {0, -1, -3}
Sl1 == {-2}
Sl2 == {-2, 0}
St1 == {-1}
St2 == {-1, 1}

RECURSIVE SubsetsUpTo(_, _)
SubsetsUpTo(S, m) ==
    IF m = 0 \/ S = {} THEN {{}}
    ELSE LET x == CHOOSE y \in S : TRUE
             R == S \ {x}
         IN SubsetsUpTo(R, m) \cup {T \cup {x} : T \in SubsetsUpTo(R, m - 1)}

\* slots <<from, to, label>>; a null self-loop cannot exist
Slots == {s \in N \X N \X (Words \cup {EPS}) : s[3] = EPS => s[1] # s[2]}
AInitFamily ==
    /\ \E S \in SubsetsUpTo(Slots, MaxA) : \E f \in [S -> Weights] :
          g = [arcs |-> {<<s[1], s[2], s[3], f[s]>> : s \in S}, words |-> Words, silw |-> {}, altm |-> <<>>]
    /\ last = [op |-> "new", ret |-> 0]
AAltOnce(base, alt) == alt \notin DOMAIN g.altm /\ AAlt(base, alt)
AXform == \/ AClosure
          \/ \E w \in SilWords, st \in SilStates, lp \in SilLps : ASil(w, st, lp)
          \/ \E p \in AltPairs : AAltOnce(p[1], p[2])
ASpecFamily == AInitFamily /\ [][AXform]_<<g, last>>
GView == g
=============================================================================
