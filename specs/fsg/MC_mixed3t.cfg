SPECIFICATION SpecMixed
CONSTANTS
  NS = 3
  Words <- W_a
  Weights <- Wt2
  SilWords <- Sil1
  SilLps <- Sl1
  SilStates <- St2
  AltPairs <- Alt2
  K = 3
  MaxArcs = 4
  MaxLinks = 30
INVARIANTS TypeOK NoFatal BitsOK
PROPERTIES RefinesStep Idempotent
VIEW NoLastView
CHECK_DEADLOCK FALSE
