------------------------------ MODULE MC_impl ------------------------------
(***************************************************************************)
(* Bounded instances of FsgModelImpl.                                      *)
(*  - from the empty grammar (Spec): every order of calls, refinement to   *)
(*    FsgAbsSpec including the initial state;                              *)
(*  - from EVERY grammar of a family (SpecNulls, SpecMixed): only the      *)
(*    transformations run, so that all null-transition graphs with 4       *)
(*    states and 6 arcs / all mixed grammars with 3 states are reached     *)
(*    without paying for the orders in which they can be built.            *)
(***************************************************************************)
EXTENDS FsgModelImpl, FiniteSets
W_a == {"a"}
W_ab == {"a", "b"}
W_none == {}
Sil1 == {"<sil>"}
Alt1 == {<<"a", "a(2)">>}
Alt2 == {<<"a", "a(2)">>, <<"<sil>", "<sil>(2)">>}
Alt3 == {<<"a", "a(2)">>, <<"<sil>", "<sil>(2)">>, <<"a", "b">>}
NoPairs == {}
Wt2 == {0, -1}
Wt3 == {0, -1, -3}
Sl1 == {-2}
Sl2 == {-2, 0}
St1 == {-1}
St2 == {-1, 1}

RECURSIVE SubsetsUpTo(_, _)
SubsetsUpTo(S, m) ==
    IF m = 0 \/ S = {} THEN {{}}
    ELSE LET x == CHOOSE y \in S : TRUE
             R == S \ {x}
         IN SubsetsUpTo(R, m) \cup {T \cup {x} : T \in SubsetsUpTo(R, m - 1)}

NonSelf == {p \in Pairs : p[1] # p[2]}
Rest == /\ silbits = {} /\ altbits = {} /\ hassil = FALSE /\ hasalt = FALSE
        /\ galt = <<>> /\ fatal = FALSE /\ last = [op |-> "new", ret |-> 0]

\* every null-transition graph with at most MaxArcs arcs (chains, cycles, unreachable parts)
InitNulls ==
    /\ vocab = <<>> /\ tr = [p \in Pairs |-> <<>>]
    /\ \E S \in SubsetsUpTo(NonSelf, MaxArcs) : \E f \in [S -> Weights] :
           nl = [p \in Pairs |-> IF p \in S THEN f[p] ELSE NONE]
    /\ Rest
SpecNulls == InitNulls /\ [][ClosureB]_vars

\* ... and, in between, an existing null transition is given a better weight (null_trans_add returns 0):
\* a later closure then has to propagate improvements through links that all exist already
UpgradeB(f, t, lp) ==
    /\ nl[<<f, t>>] # NONE /\ nl[<<f, t>>] < lp
    /\ LET r == NullAddImpl(nl, f, t, lp)
       IN /\ nl' = r.nl
          /\ fatal' = (fatal \/ r.fatal)
          /\ last' = [op |-> "null", f |-> f, t |-> t, lp |-> lp, ret |-> r.ret]
    /\ UNCHANGED <<vocab, tr, silbits, altbits, hassil, hasalt, galt>>
SpecNullsUp == InitNulls /\ [][ClosureB \/ \E f, t \in N, lp \in Weights : UpgradeB(f, t, lp)]_vars

\* every grammar over one word and null arcs with at most MaxArcs arcs (one link per slot)
Slots == (Pairs \X {0}) \cup (NonSelf \X {1})        \* <<pair, 0>> word arc, <<pair, 1>> null arc
InitMixed ==
    /\ vocab = <<"a">>
    /\ \E S \in SubsetsUpTo(Slots, MaxArcs) : \E f \in [S -> Weights] :
           /\ tr = [p \in Pairs |-> IF <<p, 0>> \in S THEN <<[wid |-> 0, lp |-> f[<<p, 0>>]]>> ELSE <<>>]
           /\ nl = [p \in Pairs |-> IF <<p, 1>> \in S THEN f[<<p, 1>>] ELSE NONE]
    /\ Rest
Xform == \/ ClosureB
         \/ \E w \in SilWords, st \in SilStates, lp \in SilLps : AddSilenceB(w, st, lp)
         \/ \E p \in AltPairs : AddAltB(p[1], p[2])
SpecMixed == InitMixed /\ [][Xform]_vars

\* expected to be VIOLATED: witness that the do-while of the closure matters (an updating second pass)
AtMostTwoPasses == last.op = "closure" => last.npass <= 2
=============================================================================
