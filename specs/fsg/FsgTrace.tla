----------------------------- MODULE FsgTrace -----------------------------
(***************************************************************************)
(* Layer C (code -> spec) for C13: validates executions of the real        *)
(* fsg_model.c, recorded by harness/fsg/fsg_drv.c, against FsgAbs.         *)
(*                                                                         *)
(* Every event carries the call, its result and the complete grammar as    *)
(* the public interface shows it afterwards (st: size, start, final, the   *)
(* vocabulary with the filler/alternate marks, every arc of the arc        *)
(* iterator as <<from, to, word, logp, pn>>).  For each event a list of    *)
(* NAMED predicates is evaluated; a false one is printed as                *)
(*      <<"FAIL", line, name>>                                             *)
(* and the walk continues from what the code actually produced, so one     *)
(* defect does not hide the next one.  Names:                              *)
(*   func:<op>        the grammar after the call is the one FsgAbs defines *)
(*   ret:<op>         the documented return value                          *)
(*   marks:<op>       filler / alternate marks of the vocabulary           *)
(*   preserve:<op>    same real-word sentences (<= K words) with the same  *)
(*                    best log-prob before and after (EXACT: the weights   *)
(*                    are integers and the closure only adds them)         *)
(*   closed           after a closure every null path has its direct arc   *)
(*   idem:<op>        the same call again changed nothing                  *)
(*   search:silence   a grammar given to a decoder has "<sil>" loops       *)
(*   diag:...         observations that C13 does not state (not violations) *)
(*   write:shape / write:prob      the file says what the grammar is       *)
(*   roundtrip:tiny-prob / :empty-name / :read-failed   the reader refuses *)
(*                    what the writer produced                             *)
(*   roundtrip:shape  states, start, final, labelled arcs                  *)
(*   roundtrip:prob   probabilities differ by more than integer            *)
(*                    truncation can explain (3 log steps + printed digit) *)
(*   roundtrip:prob-drift   probabilities not equal to the printed         *)
(*                    precision (1e-6)                                     *)
(* Executions are concatenated; a Header or Text event starts a new one.   *)
(***************************************************************************)
EXTENDS FsgAbs, Json, IOUtils

JTrace == ndJsonDeserialize(IOEnv.TRACE)
K == 4

VARIABLES l,      \* next line
          hdr,    \* [n, s, f, lwm] of the grammar under construction (lwm = language weight * 1000)
          g,      \* abstract grammar [arcs, words, silw, altm] (arcs: what the code showed last)
          altw,   \* words declared alternates so far
          prev,   \* [sig, raw]: signature and raw arc list of the previous event (idempotence)
          file,   \* what the last written / created file contains
          wst     \* the grammar dump at the time of the last write (<<>> for a literal file)
vars == <<l, hdr, g, altw, prev, file, wst>>

Ev == JTrace[l]
N == 0..(hdr.n - 1)

ObsArcs(st) == Norm(Arcs4(ToSet(st.arcs)))
ObsWords(st) == {st.vocab[i][1] : i \in DOMAIN st.vocab}
ObsSil(st) == {st.vocab[i][1] : i \in {x \in DOMAIN st.vocab : st.vocab[x][2] = 1}}
ObsAlt(st) == {st.vocab[i][1] : i \in {x \in DOMAIN st.vocab : st.vocab[x][3] = 1}}
Obs(st, altm) == [arcs |-> ObsArcs(st), words |-> ObsWords(st), silw |-> ObsSil(st), altm |-> altm]

\* print the names of the false predicates; always TRUE
Report(checks) == \A i \in DOMAIN checks : IF checks[i][2] THEN TRUE ELSE PrintT(<<"FAIL", l, checks[i][1]>>)

ShapeOK(st) == st.n = hdr.n /\ st.s = hdr.s /\ st.f = hdr.f /\
               \A a \in ToSet(st.arcs) : a[1] \in N /\ a[2] \in N /\ a[4] <= 0
SameRaw(a, b) == ToSet(a) = ToSet(b) /\ Len(a) = Len(b)
Sig == [x \in DOMAIN Ev \ {"st", "ret", "nnull", "fillers", "alts"} |-> Ev[x]]

NoFile == [ok |-> FALSE, name |-> "", n |-> -1, s |-> -1, f |-> -1, arcs |-> <<>>, begin |-> FALSE, end |-> FALSE]

TInit == /\ l = 1
         /\ hdr = [n |-> 0, s |-> 0, f |-> 0, lwm |-> 1000]
         /\ g = GEmpty /\ altw = {}
         /\ prev = [sig |-> <<>>, raw |-> <<>>]
         /\ file = NoFile /\ wst = <<>>
         /\ TLCSet(1, 0)

Keep == prev' = [sig |-> Sig, raw |-> Ev.st.arcs]

THeader == /\ Ev.e = "Header"
           /\ hdr' = [n |-> Ev.st.n, s |-> Ev.st.s, f |-> Ev.st.f, lwm |-> Ev.lwm]
           /\ Report(<< <<"func:new", Ev.st.arcs = <<>> /\ Ev.st.vocab = <<>> /\ ~Ev.st.hassil /\ ~Ev.st.hasalt>> >>)
           /\ g' = GEmpty /\ altw' = {}
           /\ prev' = [sig |-> <<>>, raw |-> <<>>]
           /\ file' = NoFile /\ wst' = <<>>

\* an operation on the grammar: exp = the abstract grammar FsgAbs defines, extra = more named checks
OpStep(op, exp, expaltw, extra(_)) ==
    LET o == Obs(Ev.st, exp.altm)
    IN /\ Report(<< <<"func:" \o op, ShapeOK(Ev.st) /\ o.arcs = exp.arcs /\ o.words = exp.words>>,
                    <<"marks:" \o op, o.silw = exp.silw /\ ObsAlt(Ev.st) = expaltw
                                      /\ Ev.st.hassil = (exp.silw # {}) /\ Ev.st.hasalt = (expaltw # {})>> >>
                 \o extra(o))
       /\ g' = o
       /\ altw' = expaltw
       /\ Keep
       /\ UNCHANGED <<hdr, file, wst>>

None(o) == <<>>

TWord == /\ Ev.e = "Word"
         /\ OpStep("word", GWord(g, Ev.w), altw, LAMBDA o : << <<"ret:word", Ev.ret >= 0>> >>)

TTrans == /\ Ev.e = "Trans"
          /\ OpStep("trans", GTrans(g, Ev.f, Ev.t, Ev.w, Ev.lp), altw, None)

TNull == /\ Ev.e = "Null"
         /\ OpStep("null", GNull(g, Ev.f, Ev.t, Ev.lp), altw,
                 LAMBDA o : << <<"ret:null", Ev.ret = NullAddRet(g.arcs, Ev.f, Ev.t, Ev.lp)>> >>)

Again == prev.sig = Sig

TClosure == /\ Ev.e = "Closure"
            /\ OpStep("closure", GClosure(g, N), altw,
                    LAMBDA o : << <<"preserve:closure", Preserves(g.arcs, o.arcs, N, hdr.s, hdr.f, o.silw, g.altm, K)>>,
                                  <<"closed", IsClosed(o.arcs, N)>>,
                                  <<"idem:closure", Again => SameRaw(prev.raw, Ev.st.arcs)>> >>)

\* the penalty is (int32)(log(silprob) * lw); one unit of slack for how the product is rounded
SilExp(lp) == GSil(g, N, Ev.w, Ev.state, lp)
TSil == /\ Ev.e = "Sil"
        /\ LET o == ObsArcs(Ev.st)
               lp == IF o = SilExp(Ev.lp - 1).arcs THEN Ev.lp - 1 ELSE IF o = SilExp(Ev.lp + 1).arcs /\ Ev.lp < 0 THEN Ev.lp + 1 ELSE Ev.lp
           IN OpStep("sil", SilExp(lp), altw,
                   LAMBDA oo : << <<"ret:sil", Ev.ret = (IF Ev.state = -1 THEN hdr.n ELSE 1)>>,
                                  <<"preserve:sil", Preserves(g.arcs, oo.arcs, N, hdr.s, hdr.f, oo.silw, g.altm, K)>>,
                                  <<"idem:sil", Again => SameRaw(prev.raw, Ev.st.arcs)>> >>)

AltSane == /\ Ev.alt \in DOMAIN g.altm => g.altm[Ev.alt] = Base(g.altm, Ev.base)
           /\ Ev.alt \in g.silw => IsFillerWord(g.silw, g.altm, Ev.base)
TAlt == /\ Ev.e = "Alt"
        /\ LET exp == GAlt(g, Ev.base, Ev.alt)
           IN OpStep("alt", exp, IF GAltOK(g, Ev.base) THEN altw \cup {Ev.alt} ELSE altw,
                   LAMBDA o : << <<"ret:alt", IF GAltOK(g, Ev.base)
                                              THEN Ev.ret >= Cardinality({a \in g.arcs : a[3] = Ev.base})
                                              ELSE Ev.ret = -1>>,
                                 <<"preserve:alt", AltSane => Preserves(g.arcs, o.arcs, N, hdr.s, hdr.f, o.silw, exp.altm, K)>> >>)

(***************************************************************************)
(* The grammar handed to a decoder (decoder_set_fsg -> fsg_search_init):   *)
(* fsg_search.c adds "<sil>" with silprob, the other words of the filler   *)
(* dictionary with fillprob, then the alternates the dictionary lists for  *)
(* the words of the grammar.  Ev.fillers / Ev.alts say what the script put *)
(* in the dictionaries.  C13 does not say that EVERY filler or alternate   *)
(* of the dictionary must be inserted, so the expected grammar is built    *)
(* from the ones the code did insert (marks in the vocabulary); leaving    *)
(* one out is reported under a diag: name, which is not a violation.       *)
(***************************************************************************)
RECURSIVE SilAll(_, _)
SilAll(gg, ws) ==
    IF ws = <<>> THEN gg
    ELSE SilAll(GSil(gg, N, Head(ws), -1, IF Head(ws) = "<sil>" THEN Ev.silp ELSE Ev.fillp), Tail(ws))
RECURSIVE AltAll(_, _)
AltAll(gg, ps) == IF ps = <<>> THEN gg ELSE AltAll(GAlt(gg, Head(ps)[1], Head(ps)[2]), Tail(ps))

TSearch == /\ Ev.e = "Search"
           /\ LET added == SelectSeq(Ev.fillers, LAMBDA w : w \in ObsSil(Ev.st))
                  g1 == SilAll(g, added)
                  usable == SelectSeq(Ev.alts, LAMBDA p : p[1] \in g1.words)
                  altsin == SelectSeq(usable, LAMBDA p : p[2] \in ObsAlt(Ev.st))
                  g2 == AltAll(g1, altsin)
              IN OpStep("search", g2, {altsin[i][2] : i \in DOMAIN altsin},
                        LAMBDA o : << <<"ret:search", Ev.ret = 0>>,
                                      <<"preserve:search", Preserves(g.arcs, o.arcs, N, hdr.s, hdr.f, o.silw, g2.altm, K)>>,
                                      <<"search:silence", "<sil>" \in o.silw>>,
                                      <<"diag:search-every-filler", ToSet(Ev.fillers) \subseteq o.silw>>,
                                      <<"diag:search-every-alternate", Len(altsin) = Len(usable)>> >>)

(***************************************************************************)
(* files                                                                   *)
(***************************************************************************)
\* one step of the log base (1.0001) is pn / 10000; the writer divides by lw and the reader multiplies
\* by it, each time truncating: less than 3 steps together.  Null arcs are re-closed by the reader
\* from the rounded values: one printed digit per arc of a path.
TolWrite(key, pn) == MICRO + pn \div 9000
TolCoarse(key, pn) == (IF key[3] = EPS THEN hdr.n ELSE 1) * MICRO + pn \div 3000
\* read with ANOTHER language weight the weights live on another grid: half a grid step (a weight
\* unit is 1/lw log steps, i.e. pn / (10000 * lw)) cannot be avoided
TolStrict(key, pn) == (IF key[3] = EPS THEN hdr.n ELSE 1) * (MICRO + IF Ev.lwm = hdr.lwm THEN 0 ELSE pn \div (20 * Ev.lwm) + 1)

TWrite == /\ Ev.e = "Write"
          /\ Report(<< <<"func:write", ObsArcs(Ev.st) = g.arcs /\ ShapeOK(Ev.st)>>,
                       <<"write:shape", WriteShape(Ev.file, hdr.n, hdr.s, hdr.f, ToSet(Ev.st.arcs))
                                        /\ Len(Ev.file.arcs) = Len(Ev.st.arcs)>>,
                       <<"write:prob", ProbsWithin(ToSet(Ev.st.arcs), ToSet(Ev.file.arcs), TolWrite)>> >>)
          /\ file' = Ev.file
          /\ wst' = Ev.st
          /\ prev' = [sig |-> <<>>, raw |-> <<>>]
          /\ UNCHANGED <<hdr, g, altw>>

\* a literal file starts an execution of its own
TText == /\ Ev.e = "Text"
         /\ file' = Ev.file
         /\ wst' = <<>>
         /\ hdr' = [n |-> Ev.file.n, s |-> Ev.file.s, f |-> Ev.file.f, lwm |-> 0]
         /\ g' = GEmpty /\ altw' = {}
         /\ prev' = [sig |-> <<>>, raw |-> <<>>]

\* the arcs a reader must produce for this file: as written, plus the null arcs of the closure
FileKeys(fl, NN) ==
    LET A0 == {<<a[1], a[2], a[3], 0>> : a \in {x \in ToSet(fl.arcs) : ~(x[3] = EPS /\ x[1] = x[2])}}
    IN Keys3(Closure(A0, NN))
Legal(fl) == fl.ok /\ fl.n > 0 /\ fl.s \in 0..(fl.n - 1) /\ fl.f \in 0..(fl.n - 1)
             /\ \A a \in ToSet(fl.arcs) : a[1] \in 0..(fl.n - 1) /\ a[2] \in 0..(fl.n - 1) /\ a[5] <= 1000000000

TRead == /\ Ev.e = "Read"
         /\ IF ~Legal(file) THEN TRUE      \* nothing is claimed about files that are not grammars
            ELSE IF ~Ev.ok
            THEN LET tiny == \E a \in ToSet(file.arcs) : a[5] = 0
                     noname == file.name = ""
                 IN Report(<< <<"roundtrip:tiny-prob", ~tiny>>,
                              <<"roundtrip:empty-name", ~noname>>,
                              <<"roundtrip:read-failed", tiny \/ noname>> >>)
            ELSE LET NN == 0..(file.n - 1)
                     A2 == ToSet(Ev.st2.arcs)
                     closed == wst # <<>> /\ IsClosed(Arcs4(ToSet(wst.arcs)), NN)
                     \* word arcs always; null arcs only when the reader's closure had nothing to add
                     Cmp(S) == {a \in S : a[3] # EPS \/ closed}
                 IN Report(<< <<"roundtrip:shape", /\ Ev.st2.n = file.n /\ Ev.st2.s = file.s /\ Ev.st2.f = file.f
                                                   /\ Keys3(A2) = FileKeys(file, NN)
                                                   /\ \A a \in A2 : a[4] <= 0>>,
                              <<"roundtrip:name", Ev.name = file.name>>,
                              <<"roundtrip:file-prob", ProbsWithin(Cmp(ToSet(file.arcs)), Cmp(A2), TolCoarse)>>,
                              <<"roundtrip:prob", wst # <<>> => ProbsWithin(Cmp(ToSet(wst.arcs)), Cmp(A2), TolCoarse)>>,
                              <<"roundtrip:prob-drift", wst # <<>> => ProbsWithin(Cmp(ToSet(wst.arcs)), Cmp(A2), TolStrict)>>,
                              <<"roundtrip:rewrite", Ev.file2.ok /\ Keys3(ToSet(Ev.file2.arcs)) = Keys3(A2)>> >>)
         /\ prev' = [sig |-> <<>>, raw |-> <<>>]
         /\ UNCHANGED <<hdr, g, altw, file, wst>>

TNext == /\ l <= Len(JTrace)
         /\ (THeader \/ TWord \/ TTrans \/ TNull \/ TClosure \/ TSil \/ TAlt \/ TSearch \/ TWrite \/ TText \/ TRead)
         /\ l' = l + 1
         /\ TLCSet(1, l)

TSpec == TInit /\ [][TNext]_vars

\* every line must be consumed (an event no action explains stops the walk)
Accepted == IF TLCGet(1) = Len(JTrace) THEN TRUE
            ELSE PrintT(<<"REJECTED-AT", TLCGet(1) + 1>>) /\ FALSE
=============================================================================
