--------------------------- MODULE FsgModelImpl ---------------------------
(***************************************************************************)
(* Layer B for C13: the mechanism of fsg_model.c transcribed.              *)
(*                                                                         *)
(*   vocab     fsg->vocab as a sequence; word id = position - 1            *)
(*   tr[i,j]   the glist stored under key j in fsg->trans[i].trans: a      *)
(*             sequence of links [wid, lp], head first (glist_add_ptr      *)
(*             PREPENDS); <<>> = key absent                                *)
(*   nl[i,j]   the link stored under key j in fsg->trans[i].null_trans:    *)
(*             its weight, or NONE                                         *)
(*   silbits, altbits, hassil, hasalt   fsg->silwords / altwords           *)
(*   galt      ghost: which base word every alternate was declared for     *)
(*   fatal     ghost: an E_FATAL branch (null transition with logp > 0)    *)
(*             was reached; forbidden (invariant NoFatal)                  *)
(*                                                                         *)
(* One action per public call.  The closure is the loop of                 *)
(* fsg_model_null_trans_closure AS WRITTEN: the list of null links is      *)
(* collected by prepending, scanned from its head, new links are           *)
(* prepended while the scan is going on (so they are first looked at in    *)
(* the next pass), weights are read through the link pointers at the       *)
(* moment they are used, and passes repeat until one changes nothing.      *)
(* Hash tables are iterated in ascending key order here; the real order    *)
(* (a hash of the key bytes) only changes how many passes are needed,      *)
(* which is why the result, not the pass count, is compared with the code. *)
(*                                                                         *)
(* Checked: this machine refines FsgAbsSpec (the grammar it holds, in      *)
(* normal form, is always the one the definitions of FsgAbs give), and the *)
(* C13 statements hold of its own transitions (Preserved, Idempotent).     *)
(***************************************************************************)
EXTENDS FsgAbs

CONSTANTS NS, Words, Weights, SilWords, SilLps, SilStates, AltPairs, K,
          MaxArcs,     \* trans_add / null_trans_add only while fewer links than this exist
          MaxLinks     \* add_silence / add_alt only while the result stays within this many links

VARIABLES vocab, tr, nl, silbits, altbits, hassil, hasalt, galt, fatal, last

vars == <<vocab, tr, nl, silbits, altbits, hassil, hasalt, galt, fatal, last>>

N == 0..(NS - 1)
NONE == 1              \* not a weight: weights are <= 0
Pairs == N \X N

Range(s) == {s[i] : i \in DOMAIN s}
RECURSIVE Rev(_)
Rev(s) == IF s = <<>> THEN <<>> ELSE Append(Rev(Tail(s)), Head(s))
RECURSIVE Asc(_)
Asc(S) == IF S = {} THEN <<>> ELSE LET m == CHOOSE x \in S : \A y \in S : x <= y IN <<m>> \o Asc(S \ {m})
\* all (from, to) pairs, from-state major, to-state minor
PairSeq == [x \in 1..(NS * NS) |-> <<(x - 1) \div NS, (x - 1) % NS>>]

(***************************************************************************)
(* vocabulary                                                              *)
(***************************************************************************)
Wid(v, w) == IF w \in Range(v) THEN (CHOOSE i \in DOMAIN v : v[i] = w) - 1 ELSE -1
WordAdd(v, w) == IF w \in Range(v) THEN v ELSE Append(v, w)
WordStr(v, wid) == v[wid + 1]

(***************************************************************************)
(* fsg_model_trans_add on the list of one (from, to) pair: the first link  *)
(* with this word id keeps the higher weight, otherwise a new link is put  *)
(* in front.                                                               *)
(***************************************************************************)
ListAdd(lst, wid, lp) ==
    IF \E i \in DOMAIN lst : lst[i].wid = wid
    THEN LET i == CHOOSE x \in DOMAIN lst : lst[x].wid = wid /\ \A j \in 1..(x - 1) : lst[j].wid # wid
         IN IF lst[i].lp < lp THEN [lst EXCEPT ![i].lp = lp] ELSE lst
    ELSE <<[wid |-> wid, lp |-> lp]>> \o lst

(***************************************************************************)
(* fsg_model_tag_trans_add / null_trans_add: [nl, ret, fatal]              *)
(***************************************************************************)
NullAddImpl(nlx, f, t, lp) ==
    IF lp > 0 THEN [nl |-> nlx, ret |-> -1, fatal |-> TRUE]                         \* E_FATAL
    ELSE IF f = t THEN [nl |-> nlx, ret |-> -1, fatal |-> FALSE]                    \* redundant self-loop
    ELSE IF nlx[<<f, t>>] # NONE
         THEN IF nlx[<<f, t>>] < lp
              THEN [nl |-> [nlx EXCEPT ![<<f, t>>] = lp], ret |-> 0, fatal |-> FALSE]   \* keep the higher prob
              ELSE [nl |-> nlx, ret |-> -1, fatal |-> FALSE]
         ELSE [nl |-> [nlx EXCEPT ![<<f, t>>] = lp], ret |-> 1, fatal |-> FALSE]

(***************************************************************************)
(* fsg_model_null_trans_closure(fsg, NULL)                                 *)
(***************************************************************************)
NullKeys(nlx, i) == Asc({k \in N : nlx[<<i, k>>] # NONE})      \* hash_table_iter(trans[i].null_trans)

\* nulls == NULL: visit states in order, links in table order, PREPEND each to the list
CollectNulls(nlx) == Rev(SelectSeq(PairSeq, LAMBDA p : nlx[p] # NONE))

\* inner for-loop: tl1 = <<i, j>> fixed, tl2 runs over the null links of j (ks = their targets)
RECURSIVE InnerLoop(_, _, _)
InnerLoop(st, tl1, ks) ==
    IF ks = <<>> THEN st
    ELSE LET i == tl1[1]
             j == tl1[2]
             k == Head(ks)
             lp == st.nl[<<i, j>>] + st.nl[<<j, k>>]          \* tl1->logs2prob + tl2->logs2prob, read now
             r == NullAddImpl(st.nl, i, k, lp)
         IN InnerLoop([nl |-> r.nl,
                       added |-> IF r.ret > 0 THEN <<<<i, k>>>> \o st.added ELSE st.added,   \* glist_add_ptr
                       upd |-> st.upd \/ r.ret >= 0,
                       fatal |-> st.fatal \/ r.fatal],
                      tl1, Tail(ks))

\* outer for-loop over the nodes that were in the list when the pass started
RECURSIVE ScanList(_, _)
ScanList(st, rest) ==
    IF rest = <<>> THEN st
    ELSE ScanList(InnerLoop(st, Head(rest), NullKeys(st.nl, Head(rest)[2])), Tail(rest))

\* do { ... } while (updated)
RECURSIVE Passes(_, _, _, _)
Passes(nlx, nulls, npass, ftl) ==
    LET st == ScanList([nl |-> nlx, added |-> <<>>, upd |-> FALSE, fatal |-> ftl], nulls)
    IN IF st.upd /\ npass < 50
       THEN Passes(st.nl, st.added \o nulls, npass + 1, st.fatal)
       ELSE [nl |-> st.nl, nulls |-> st.added \o nulls, npass |-> npass + 1, fatal |-> st.fatal, fix |-> ~st.upd]

ClosureImpl(nlx) == Passes(nlx, CollectNulls(nlx), 0, FALSE)

(***************************************************************************)
(* state machine                                                           *)
(***************************************************************************)
NLinks == LET cnt(p) == Len(tr[p]) + (IF nl[p] # NONE THEN 1 ELSE 0)
              RECURSIVE Sum(_)
              Sum(S) == IF S = {} THEN 0 ELSE LET p == CHOOSE x \in S : TRUE IN cnt(p) + Sum(S \ {p})
          IN Sum(Pairs)

Init == /\ vocab = <<>>
        /\ tr = [p \in Pairs |-> <<>>]
        /\ nl = [p \in Pairs |-> NONE]
        /\ silbits = {} /\ altbits = {} /\ hassil = FALSE /\ hasalt = FALSE
        /\ galt = <<>> /\ fatal = FALSE
        /\ last = [op |-> "new", ret |-> 0]

\* fsg_model_word_add + fsg_model_trans_add
TransAddB(f, t, w, lp) ==
    /\ NLinks < MaxArcs
    /\ LET v1 == WordAdd(vocab, w)
       IN /\ vocab' = v1
          /\ tr' = [tr EXCEPT ![<<f, t>>] = ListAdd(@, Wid(v1, w), lp)]
    /\ last' = [op |-> "trans", f |-> f, t |-> t, w |-> w, lp |-> lp, ret |-> 0]
    /\ UNCHANGED <<nl, silbits, altbits, hassil, hasalt, galt, fatal>>

NullAddB(f, t, lp) ==
    /\ NLinks < MaxArcs
    /\ LET r == NullAddImpl(nl, f, t, lp)
       IN /\ nl' = r.nl
          /\ fatal' = (fatal \/ r.fatal)
          /\ last' = [op |-> "null", f |-> f, t |-> t, lp |-> lp, ret |-> r.ret]
    /\ UNCHANGED <<vocab, tr, silbits, altbits, hassil, hasalt, galt>>

ClosureB ==
    /\ LET r == ClosureImpl(nl)
       IN /\ nl' = r.nl
          /\ fatal' = (fatal \/ r.fatal \/ ~r.fix)
          /\ last' = [op |-> "closure", ret |-> 0, npass |-> r.npass, nnull |-> Len(r.nulls)]
    /\ UNCHANGED <<vocab, tr, silbits, altbits, hassil, hasalt, galt>>

\* fsg_model_add_silence(fsg, w, state, silprob) with lp = (int32)(log(silprob) * lw)
AddSilenceB(w, state, lp) ==
    /\ NLinks + (IF state = -1 THEN NS ELSE 1) <= MaxLinks
    /\ LET v1 == WordAdd(vocab, w)
           wid == Wid(v1, w)
       IN /\ vocab' = v1
          /\ silbits' = silbits \cup {wid}
          /\ hassil' = TRUE
          /\ tr' = [p \in Pairs |-> IF p[1] = p[2] /\ (state = -1 \/ p[1] = state)
                                    THEN ListAdd(tr[p], wid, lp) ELSE tr[p]]
    /\ last' = [op |-> "sil", w |-> w, state |-> state, lp |-> lp, ret |-> IF state = -1 THEN NS ELSE 1]
    /\ UNCHANGED <<nl, altbits, hasalt, galt, fatal>>

\* fsg_model_add_alt: every link labelled base is copied with the label alt; the copies are put in
\* front of the list while it is being walked from its old head
Copies(lst, basewid, altwid) ==
    Rev(SelectSeq([x \in DOMAIN lst |-> [wid |-> IF lst[x].wid = basewid THEN altwid ELSE -2, lp |-> lst[x].lp]],
                  LAMBDA e : e.wid # -2))

AltSane(base, alt) ==
    LET silw == {WordStr(vocab, x) : x \in silbits}
    IN /\ alt \in DOMAIN galt => galt[alt] = Base(galt, base)
       /\ alt \in silw => IsFillerWord(silw, galt, base)

AddAltB(base, alt) ==
    /\ AltSane(base, alt)
    /\ alt \notin DOMAIN galt          \* bound: an alternate is declared once (fsg_search: !fsg_model_has_alt)
    /\ LET basewid == Wid(vocab, base)
       IN IF basewid = -1
          THEN /\ last' = [op |-> "alt", base |-> base, alt |-> alt, ret |-> -1]
               /\ UNCHANGED <<vocab, tr, nl, silbits, altbits, hassil, hasalt, galt, fatal>>
          ELSE LET v1 == WordAdd(vocab, alt)
                   altwid == Wid(v1, alt)
                   cp == [p \in Pairs |-> Copies(tr[p], basewid, altwid)]
                   ncp == LET RECURSIVE Sum(_)
                              Sum(S) == IF S = {} THEN 0 ELSE LET p == CHOOSE x \in S : TRUE IN Len(cp[p]) + Sum(S \ {p})
                          IN Sum(Pairs)
               IN /\ NLinks + ncp <= MaxLinks
                  /\ vocab' = v1
                  /\ altbits' = altbits \cup {altwid}
                  /\ hasalt' = TRUE
                  /\ silbits' = IF hassil /\ basewid \in silbits THEN silbits \cup {altwid} ELSE silbits
                  /\ tr' = [p \in Pairs |-> cp[p] \o tr[p]]
                  /\ galt' = AltMapAdd(galt, base, alt)
                  /\ last' = [op |-> "alt", base |-> base, alt |-> alt, ret |-> ncp]
                  /\ UNCHANGED <<nl, hassil, fatal>>

Next == \/ \E f, t \in N, w \in Words, lp \in Weights : TransAddB(f, t, w, lp)
        \/ \E f, t \in N, lp \in Weights : NullAddB(f, t, lp)
        \/ ClosureB
        \/ \E w \in SilWords, st \in SilStates, lp \in SilLps : AddSilenceB(w, st, lp)
        \/ \E p \in AltPairs : AddAltB(p[1], p[2])

Spec == Init /\ [][Next]_vars

-----------------------------------------------------------------------------
(* What the public arc iterator shows, and the projection to Layer A. *)
ImplArcs == UNION {{<<p[1], p[2], WordStr(vocab, tr[p][x].wid), tr[p][x].lp>> : x \in DOMAIN tr[p]} : p \in Pairs}
            \cup {<<p[1], p[2], EPS, nl[p]>> : p \in {q \in Pairs : nl[q] # NONE}}
SilW == {WordStr(vocab, x) : x \in silbits}

GProj == [arcs |-> Norm(ImplArcs), words |-> Range(vocab), silw |-> SilW, altm |-> galt]
LastProj == IF last.op = "alt" THEN [last EXCEPT !.ret = IF @ >= 0 THEN 0 ELSE -1]
            ELSE IF last.op = "closure" THEN [op |-> "closure", ret |-> 0]
            ELSE last

A == INSTANCE FsgAbsSpec WITH g <- GProj, last <- LastProj
Refines == A!ASpec
\* The step half of the refinement with the abstract action picked by last' (same statement as
\* [][A!ANext]_<<GProj, LastProj>>, evaluated once instead of once per candidate action); used by the
\* instances that start from every grammar of a family instead of the empty one.
StepOK ==
    LET l == last'
        g0 == GProj
        g1 == GProj'
    IN CASE l.op = "trans" -> g1 = GTrans(g0, l.f, l.t, l.w, l.lp)
         [] l.op = "null" -> g1 = GNull(g0, l.f, l.t, l.lp) /\ l.ret = NullAddRet(g0.arcs, l.f, l.t, l.lp)
         [] l.op = "closure" -> g1 = GClosure(g0, N)
         [] l.op = "sil" -> g1 = GSil(g0, N, l.w, l.state, l.lp) /\ l.ret = (IF l.state = -1 THEN NS ELSE 1)
         [] l.op = "alt" -> g1 = GAlt(g0, l.base, l.alt) /\ ((l.ret = -1) <=> ~GAltOK(g0, l.base))
         [] OTHER -> FALSE
RefinesStep == [][StepOK]_vars
RefinesInit == GProj = GEmpty        \* as a PROPERTY: holds in the initial state

\* the C13 statements on this machine's own transitions
IsXform(l) == l.op \in {"closure", "sil", "alt"}
Preserved == [][IsXform(last') => PreservesAllFinals(ImplArcs, ImplArcs', N, 0, SilW', galt', K)]_vars
Idempotent == [][/\ last'.op = "closure" => (ClosureImpl(nl').nl = nl' /\ IsClosed(ImplArcs', N))
                 /\ last'.op = "sil" =>
                        LET wid == Wid(vocab', last'.w)
                        IN \A p \in Pairs : (p[1] = p[2] /\ (last'.state = -1 \/ p[1] = last'.state))
                                             => ListAdd(tr'[p], wid, last'.lp) = tr'[p]]_vars

\* VIEW for instances whose properties do not need `last' to be part of the state's identity
NoLastView == <<vocab, tr, nl, silbits, altbits, hassil, hasalt, galt, fatal>>

NoFatal == ~fatal
TypeOK == /\ \A p \in Pairs : nl[p] = NONE \/ (nl[p] <= 0 /\ p[1] # p[2])
          /\ \A p \in Pairs : \A x \in DOMAIN tr[p] : tr[p][x].wid \in 0..(Len(vocab) - 1)
          /\ silbits \subseteq 0..(Len(vocab) - 1) /\ altbits \subseteq 0..(Len(vocab) - 1)
          /\ (silbits # {} => hassil) /\ (altbits # {} => hasalt)
          /\ \A i, j \in DOMAIN vocab : i # j => vocab[i] # vocab[j]
\* bits and the declared configuration agree: every alternate is marked, alternates of a marked base
\* declared after the marking are marked
BitsOK == \A w \in DOMAIN galt : Wid(vocab, w) \in altbits
=============================================================================
