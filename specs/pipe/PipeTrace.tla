------------------------------ MODULE PipeTrace ------------------------------
(***************************************************************************)
(* Layer C for C07: decoding results do not depend on chunking or          *)
(* buffering mode.  One execution = a reference utterance (the audio in    *)
(* one streaming call) followed by variants of the SAME audio on fresh     *)
(* decoders with the same channel-normalisation state, fed in pieces,      *)
(* with buffered (no_search) pieces, int16/float32 entry points and        *)
(* partial-result / lattice / alignment queries in between.  Every         *)
(* variant's final hypothesis, segmentation with scores, path score,       *)
(* alignment tree and number of frames searched must equal the             *)
(* reference's; FeatStream's frame count formula must hold for both.       *)
(***************************************************************************)
EXTENDS Naturals, Integers, Sequences, TLC, Json, IOUtils

JTrace == ndJsonDeserialize(IOEnv.TRACE)
VARIABLES l, mode, ref, cur
Ev == JTrace[l]
Clause(name, cond) == IF cond THEN TRUE ELSE PrintT(<<"CLAUSE-FAILED", name, l>>) /\ FALSE

None == [set |-> FALSE]
NoCur == [fed |-> 0, retsum |-> 0, searched |-> 0, size |-> 1, shift |-> 1]
TInit == l = 1 /\ mode = "none" /\ ref = None /\ cur = NoCur /\ TLCSet(1, 0)

\* frames the front end makes of n samples (FrameStream, C06)
NF(n, Size, Shift) == IF n = 0 THEN 0 ELSE IF n < Size THEN 1 ELSE 1 + ((n - Size) \div Shift) + 1

\* a new execution starts with the Header of the reference decoder; later Headers (fresh decoders
\* for the variants) keep the reference
THeader == /\ Ev.e = "Header"
           /\ cur' = [NoCur EXCEPT !.size = IF Ev.ok THEN Ev.size ELSE 1, !.shift = IF Ev.ok THEN Ev.shift ELSE 1]
           /\ UNCHANGED <<mode, ref>>
TMark == /\ Ev.e = "Mark"
         /\ mode' = Ev.v
         /\ ref' = IF Ev.v = "ref" THEN None ELSE ref
         /\ UNCHANGED cur
TStart == Ev.e = "Start" /\ cur' = [cur EXCEPT !.fed = 0, !.retsum = 0, !.searched = 0] /\ UNCHANGED <<mode, ref>>
TFeed == /\ Ev.e = "Feed"
         /\ Clause("feed-returns-frames-searched", Ev.ret >= 0 /\ Ev.ret = Ev.searched)
         /\ cur' = [cur EXCEPT !.fed = @ + Ev.n, !.retsum = @ + Ev.ret, !.searched = @ + Ev.searched]
         /\ UNCHANGED <<mode, ref>>
TEnd == /\ Ev.e = "End"
        /\ Clause("end-ok", Ev.ret = 0)
        /\ Clause("frame-count", cur.retsum + Ev.searched = NF(cur.fed, cur.size, cur.shift))
        /\ cur' = [cur EXCEPT !.searched = @ + Ev.searched]
        /\ UNCHANGED <<mode, ref>>

ResProj == [hyp |-> Ev.hyp, hypnull |-> Ev.hypnull, score |-> Ev.score, nfr |-> Ev.nfr, scored |-> Ev.scored,
            segs |-> [i \in DOMAIN Ev.segs |-> <<Ev.segs[i].w, Ev.segs[i].sf, Ev.segs[i].ef, Ev.segs[i].ascr, Ev.segs[i].lscr>>]]
\* only final results are compared; partial results asked along the way are free to differ
TResult == /\ Ev.e = "Result"
           /\ IF ~Ev.final THEN UNCHANGED ref
              ELSE IF mode = "ref" THEN ref' = [set |-> TRUE, res |-> ResProj, al |-> <<>>, alnull |-> TRUE]
              ELSE /\ Clause("reference-present", ref.set)
                   /\ Clause("frames-searched-equal", ref.set => Ev.scored = ref.res.scored /\ Ev.nfr = ref.res.nfr)
                   /\ Clause("hypothesis-equal", ref.set => Ev.hyp = ref.res.hyp /\ Ev.hypnull = ref.res.hypnull)
                   /\ Clause("score-equal", ref.set => Ev.score = ref.res.score)
                   /\ Clause("segmentation-equal", ref.set => ResProj.segs = ref.res.segs)
                   /\ UNCHANGED ref
           /\ UNCHANGED <<mode, cur>>

AlProj == IF Ev.null THEN <<>> ELSE Ev.words
TAlign == /\ Ev.e = "Align"
          /\ IF Ev.tag # "fin" THEN UNCHANGED ref
             ELSE IF mode = "ref" THEN ref' = [ref EXCEPT !.al = AlProj, !.alnull = Ev.null]
             ELSE /\ Clause("alignment-equal", ref.set => (Ev.null = ref.alnull /\ AlProj = ref.al))
                  /\ UNCHANGED ref
          /\ UNCHANGED <<mode, cur>>

TOther == Ev.e \in {"Grammar", "Lattice", "NBest", "Json", "Cmn", "SetCmn", "AddWord", "SenMode"} /\ UNCHANGED <<mode, ref, cur>>

TNext == /\ l <= Len(JTrace)
         /\ (THeader \/ TMark \/ TStart \/ TFeed \/ TEnd \/ TResult \/ TAlign \/ TOther)
         /\ l' = l + 1
         /\ TLCSet(1, l)
TSpec == TInit /\ [][TNext]_<<l, mode, ref, cur>>
Accepted == IF TLCGet(1) = Len(JTrace) THEN TRUE
            ELSE PrintT(<<"REJECTED-AT", TLCGet(1) + 1>>) /\ FALSE
=============================================================================
