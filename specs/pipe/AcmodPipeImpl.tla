--------------------------- MODULE AcmodPipeImpl ---------------------------
(***************************************************************************)
(* Layer B for C07: acmod.c + feat.c (live path) + the decoder's process   *)
(* loop, transcribed with INDICES instead of numbers, so that a slot that  *)
(* is overwritten, read twice, skipped or not replicated shows up as a     *)
(* wrong window.                                                           *)
(*   mfc    the cepstrum ring mfc_buf (MA slots), outidx, nmfc             *)
(*   cep    the live feature ring cepbuf (LB slots), bufpos, curpos        *)
(*   feat   the growing feature buffer (grow_feat = TRUE, the default),    *)
(*          featout, nfeat                                                 *)
(*   state  IDLE / STARTED / PROCESSING / ENDED                            *)
(*   next   index of the next cepstrum the front end will deliver          *)
(*   searched  the windows handed to the search so far                     *)
(* One action per public call: StartUtt, Process(c, no_search) where c is  *)
(* the number of cepstra the call's samples make (0 allowed: a chunk       *)
(* shorter than one window), EndUtt (fe_end delivers the trailing frame).  *)
(* StartedFix = FALSE reproduces the code before fix 1dde7cd (an empty     *)
(* first chunk ends the STARTED state) and violates PrefixOfCanonical.     *)
(* Real constants: W = 3, MA = 128, LB = 256 (LB >= MA + 2W + 1 is kept).  *)
(* A full-utterance call (ProcessFull) computes its features in one batch  *)
(* and ENLARGES the cepstrum ring to the length of the utterance (s.ma);   *)
(* the ring stays enlarged for later, streaming utterances of the same     *)
(* decoder.  CapFix = FALSE reproduces the code before the fix recorded in *)
(* known_findings.json: a streaming call then puts more cepstra into the   *)
(* ring than the live feature computation takes in one go, the process     *)
(* loop stops when the samples are used up, and the end of the utterance   *)
(* drains the ring only once - frames are lost (violates CompleteAtEnd).   *)
(***************************************************************************)
EXTENDS FeatStream, TLC

CONSTANTS W, MA, LB, MaxCep, StartedFix, CapFix, MaxUtt
VARIABLES s, hist          \* s: the record described above; hist: calls made (for counterexamples only)

NONE == -1
Mod(a, b) == ((a % b) + b) % b

Init == /\ s = [mfc |-> [i \in 0..(MA - 1) |-> NONE], outidx |-> 0, nmfc |-> 0,
                cep |-> [i \in 0..(LB - 1) |-> NONE], bufpos |-> 0, curpos |-> 0,
                feat |-> <<>>, featout |-> 0, nfeat |-> 0, state |-> "IDLE", next |-> 0, searched |-> <<>>, lost |-> FALSE,
                ma |-> MA, feended |-> FALSE, nutt |-> 0]
        /\ hist = <<>>

\* ---- feat_s2mfc2feat_live(x, begin, end): returns [st, used] -----------------------------------
RECURSIVE WriteCep(_, _), Emit(_, _)
WriteCep(st, xs) == IF xs = <<>> THEN st
                    ELSE WriteCep([st EXCEPT !.cep[st.bufpos] = Head(xs), !.bufpos = (st.bufpos + 1) % LB], Tail(xs))
Emit(st, n) == IF n <= 0 THEN st
               ELSE LET win == [j \in 1..(2 * W + 1) |-> st.cep[Mod(st.curpos - W + j - 1, LB)]]
                    IN Emit([st EXCEPT !.feat = Append(@, win), !.nfeat = @ + 1, !.curpos = (st.curpos + 1) % LB], n - 1)
Rep(v, n) == [i \in 1..n |-> v]

FeatLive(st0, x0, begin, end0) ==
    LET st1 == IF begin THEN [st0 EXCEPT !.bufpos = st0.curpos] ELSE st0
        nb0 == Mod(st1.bufpos - st1.curpos, LB) + (IF begin /\ x0 # <<>> THEN W ELSE 0) + (IF end0 THEN W ELSE 0)
        clamp == nb0 + Len(x0) > LB
        x == IF clamp THEN SubSeq(x0, 1, LB - nb0 - W) ELSE x0
        end == end0 /\ ~clamp
        \* replicate the first frame into the leading window
        st2 == IF begin /\ x # <<>>
               THEN LET t == WriteCep(st1, Rep(x[1], W)) IN [t EXCEPT !.curpos = t.bufpos]
               ELSE st1
        nb1 == IF begin /\ x # <<>> THEN nb0 - W ELSE nb0
        st3 == WriteCep(st2, x)
        nb2 == nb1 + Len(x)
        \* replicate the last frame written into the trailing window
        st4 == IF end THEN WriteCep(st3, Rep(st3.cep[Mod(st3.bufpos - 1, LB)], W)) ELSE st3
    IN [st |-> Emit(st4, nb2 - W), used |-> Len(x)]

\* ---- acmod_process_cep(at, c): consume c cepstra starting at ring slot `at' ------------------------
ProcessCep(st, at, c) ==
    LET xs == [i \in 1..c |-> st.mfc[(at + i - 1) % st.ma]]
        \* a read past the end of the ring would be out of bounds in C: flag it
        oob == at + c > st.ma
        r == FeatLive(st, xs, st.state = "STARTED", st.state = "ENDED")
        nst == IF st.state = "STARTED" /\ (r.used > 0 \/ ~StartedFix) THEN "PROCESSING" ELSE st.state
    IN [st |-> [r.st EXCEPT !.state = nst, !.lost = @ \/ oob], used |-> r.used]

\* ---- acmod_process_mfcbuf ------------------------------------------------------------------------
ProcessMfcbuf(st) ==
    LET c == st.nmfc
    IN IF st.outidx + c > st.ma
       THEN LET c1 == st.ma - st.outidx
                saved == st.state
                stA == IF saved = "ENDED" THEN [st EXCEPT !.state = "PROCESSING"] ELSE st
                r1 == ProcessCep(stA, st.outidx, c1)
                st1 == [r1.st EXCEPT !.nmfc = @ - r1.used, !.outidx = (@ + r1.used) % st.ma,
                                     !.state = saved]      \* (restored whatever it was: also STARTED, as in the code)
                c2 == c - r1.used
                r2 == ProcessCep(st1, st1.outidx, c2)
            IN [r2.st EXCEPT !.nmfc = @ - r2.used, !.outidx = (@ + r2.used) % st.ma]
       ELSE LET r == ProcessCep(st, st.outidx, c)
            IN [r.st EXCEPT !.nmfc = @ - r.used, !.outidx = (@ + r.used) % st.ma]

\* ---- front end writes up to m cepstra of the call's remaining `avail' into the ring at slot `inp' ----
RECURSIVE FeWrite(_, _, _)
FeWrite(st, inp, k) == IF k = 0 THEN st
                       ELSE FeWrite([st EXCEPT !.mfc[inp] = st.next, !.next = @ + 1, !.nmfc = @ + 1], (inp + 1) % st.ma, k - 1)

\* acmod_process_raw for a call whose remaining samples make `avail' cepstra: returns [st, took]
ProcessRaw(st, avail) ==
    LET room == st.ma - st.nmfc
        \* the fix: never take in more per call than the ring held before any full-utterance call enlarged it
        free == IF CapFix /\ room > MA THEN MA ELSE room
        inp == (st.outidx + st.nmfc) % st.ma
    IN IF inp + free > st.ma
       THEN \* two-part write: first up to the end of the ring
            LET v1 == IF avail < st.ma - inp THEN avail ELSE st.ma - inp
                st1 == FeWrite(st, inp, v1)
            IN IF v1 = 0 THEN [st |-> ProcessMfcbuf(st1), took |-> 0]
               ELSE LET free2 == free - v1
                        v2 == IF avail - v1 < free2 THEN avail - v1 ELSE free2
                        st2 == FeWrite(st1, (inp + v1) % st.ma, v2)
                    IN [st |-> ProcessMfcbuf(st2), took |-> v1 + v2]
       ELSE LET v == IF avail < free THEN avail ELSE free
                st1 == FeWrite(st, inp, v)
            IN [st |-> ProcessMfcbuf(st1), took |-> v]

\* search_module_forward: hand every buffered feature frame to the search
RECURSIVE Forward(_)
Forward(st) == IF st.nfeat = 0 THEN st
               ELSE Forward([st EXCEPT !.searched = Append(@, st.feat[st.featout + 1]), !.featout = @ + 1, !.nfeat = @ - 1])

\* decoder_process_*: loop while samples remain
RECURSIVE ProcLoop(_, _, _, _)
ProcLoop(st, avail, nosearch, first) ==
    IF avail = 0 /\ ~first THEN st
    ELSE LET r == ProcessRaw(st, avail)
             st1 == IF nosearch THEN r.st ELSE Forward(r.st)
         IN IF r.took = 0 THEN st1                      \* no progress: the real loop would spin; stop
            ELSE ProcLoop(st1, avail - r.took, nosearch, FALSE)

\* acmod_start_utt puts the read position of the cepstrum ring back to slot 0 (a negative control overrides this with
\* FALSE: the position then survives from the utterance before)
OutIdxReset == TRUE
StartUtt == /\ s.state \in {"IDLE", "ENDED"} /\ s.nutt < MaxUtt
            /\ s' = [s EXCEPT !.state = "STARTED", !.nmfc = 0, !.outidx = IF OutIdxReset THEN 0 ELSE @, !.feat = <<>>, !.featout = 0, !.nfeat = 0,
                              !.next = 0, !.searched = <<>>, !.feended = FALSE, !.nutt = @ + 1]
            /\ hist' = Append(hist, <<"start">>)

\* decoder_process_*(full_utt = TRUE) as the first call of an utterance whose audio makes n cepstra (the trailing
\* frame of fe_end included): the ring is enlarged to n if smaller, every cepstrum is written from slot 0, the
\* features are computed in one batch (the canonical windows by construction of that path), the front end is ended
ProcessFull(n, nosearch) ==
    /\ s.state = "STARTED" /\ s.next = 0 /\ n >= 1 /\ n <= MaxCep
    /\ LET grown == s.ma < n
           st0 == [s EXCEPT !.ma = IF grown THEN n ELSE @,
                            !.mfc = IF grown THEN [i \in 0..(n - 1) |-> NONE] ELSE @, !.nmfc = 0, !.outidx = 0]
           st1 == FeWrite(st0, 0, n)
           st2 == [st1 EXCEPT !.nmfc = 0, !.feat = Canonical(W, n), !.featout = 0, !.nfeat = n, !.feended = TRUE,
                              !.state = "PROCESSING"]
       IN s' = IF nosearch THEN st2 ELSE Forward(st2)
    /\ hist' = Append(hist, <<"full", n, nosearch>>)

Process(c, nosearch) ==
    /\ s.state \in {"STARTED", "PROCESSING"} /\ s.next + c <= MaxCep /\ ~s.feended
    /\ s' = ProcLoop(s, c, nosearch, TRUE)
    /\ hist' = Append(hist, <<"process", c, nosearch>>)

\* acmod_end_utt + final search; tail = 1 iff any sample was given (fe_end's frame)
EndUtt(tail) ==
    /\ s.state \in {"STARTED", "PROCESSING"}
    /\ LET st0 == [s EXCEPT !.state = "ENDED"]
           st1 == IF st0.nmfc < st0.ma /\ tail = 1
                  THEN ProcessMfcbuf(FeWrite(st0, (st0.outidx + st0.nmfc) % st0.ma, 1))
                  ELSE st0
       IN s' = Forward(st1)
    /\ hist' = Append(hist, <<"end", tail>>)

DoProcess == \E c \in 0..MaxCep, ns \in BOOLEAN : Process(c, ns)
DoFull == \E n \in 1..MaxCep, ns \in BOOLEAN : ProcessFull(n, ns)
\* (fe_end always has a frame once samples came, unless a full-utterance call already took it)
DoEnd == \E tail \in {0, 1} : (tail = 1 <=> (s.next > 0 /\ ~s.feended)) /\ EndUtt(tail)
Next == StartUtt \/ DoProcess \/ DoFull \/ DoEnd
Spec == Init /\ [][Next]_<<s, hist>>

-----------------------------------------------------------------------------
NoRingOverrun == ~s.lost
\* whatever reached the search so far is the beginning of the canonical sequence of the cepstra delivered...
\* (the total is only known at the end, but every window that does not touch the end is already final)
Interior(win, n) == \A j \in DOMAIN win : win[j] # NONE
SearchedAreWindows ==
    \A k \in DOMAIN s.searched :
        LET win == s.searched[k]
        IN \A j \in 1..(2 * W + 1) :
              \/ win[j] = k - 1 - W + j - 1                                        \* the cepstrum itself
              \/ (k - 1 - W + j - 1 < 0 /\ win[j] = 0)                             \* first frame replicated
              \/ ((s.state = "ENDED" \/ s.feended) /\ k - 1 - W + j - 1 > s.next - 1 /\ win[j] = s.next - 1)   \* last frame replicated
\* after the end of the utterance the search has seen exactly the canonical sequence
CompleteAtEnd == s.state = "ENDED" => s.searched = Canonical(W, s.next)
=============================================================================
