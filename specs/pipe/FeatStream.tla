------------------------------ MODULE FeatStream ------------------------------
(***************************************************************************)
(* Layer A for C07: what the search must be fed, whatever the chunking.    *)
(* Cepstral frames are their indices 0..N-1.  The dynamic-feature frame k  *)
(* is the window of 2W+1 cepstra centred on k, with the first / last frame *)
(* replicated beyond the ends of the utterance; the search must receive    *)
(* windows 0, 1, ..., N-1 in order, each exactly once per pass.            *)
(***************************************************************************)
EXTENDS Naturals, Integers, Sequences

Clamp(i, n) == IF i < 0 THEN 0 ELSE IF i > n - 1 THEN n - 1 ELSE i
Window(k, W, n) == [j \in 1..(2 * W + 1) |-> Clamp(k - W + j - 1, n)]
Canonical(W, n) == [k \in 1..n |-> Window(k - 1, W, n)]
IsPrefix(s, t) == Len(s) <= Len(t) /\ \A i \in DOMAIN s : s[i] = t[i]
=============================================================================
