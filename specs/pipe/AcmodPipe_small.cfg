SPECIFICATION Spec
CONSTANTS
  W = 1
  MA = 3
  LB = 6
  MaxCep = 7
  CapFix = TRUE
  MaxUtt = 1
  StartedFix = TRUE
INVARIANTS NoRingOverrun SearchedAreWindows CompleteAtEnd
VIEW View
CHECK_DEADLOCK FALSE
