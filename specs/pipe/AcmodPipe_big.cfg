SPECIFICATION Spec
CONSTANTS
  W = 2
  MA = 4
  LB = 9
  MaxCep = 10
  CapFix = TRUE
  MaxUtt = 1
  StartedFix = TRUE
INVARIANTS NoRingOverrun SearchedAreWindows CompleteAtEnd
VIEW View
CHECK_DEADLOCK FALSE
