---- MODULE MC_AcmodPipe ----
EXTENDS AcmodPipeImpl
View == s
KeepIdx == FALSE
====
