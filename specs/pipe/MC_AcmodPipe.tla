---- MODULE MC_AcmodPipe ----
EXTENDS AcmodPipeImpl
View == s
====
