---- MODULE MC_AcmodPipe_TTrace_1790465645 ----
EXTENDS Sequences, MC_AcmodPipe, TLCExt, Toolbox, Naturals, TLC

_expression ==
    LET MC_AcmodPipe_TEExpression == INSTANCE MC_AcmodPipe_TEExpression
    IN MC_AcmodPipe_TEExpression!expression
----

_trace ==
    LET MC_AcmodPipe_TETrace == INSTANCE MC_AcmodPipe_TETrace
    IN MC_AcmodPipe_TETrace!trace
----

_inv ==
    ~(
        TLCGet("level") = Len(_TETrace)
        /\
        hist = (<<<<"start">>, <<"process", 2, FALSE>>, <<"process", 1, FALSE>>, <<"process", 4, FALSE>>, <<"end", 1>>, <<"start">>, <<"process", 3, FALSE>>>>)
        /\
        s = ([mfc |-> (0 :> 1 @@ 1 :> 2 @@ 2 :> 0), outidx |-> 2, nmfc |-> 0, cep |-> (0 :> 2 @@ 1 :> 6 @@ 2 :> 7 @@ 3 :> 0 @@ 4 :> 1 @@ 5 :> 1), bufpos |-> 1, curpos |-> 0, feat |-> <<<<1, 1, 2>>>>, featout |-> 1, nfeat |-> 0, state |-> "PROCESSING", next |-> 3, searched |-> <<<<1, 1, 2>>>>, lost |-> FALSE, ma |-> 3, feended |-> FALSE, nutt |-> 2])
    )
----

_init ==
    /\ s = _TETrace[1].s
    /\ hist = _TETrace[1].hist
----

_next ==
    /\ \E i,j \in DOMAIN _TETrace:
        /\ \/ /\ j = i + 1
              /\ i = TLCGet("level")
        /\ s  = _TETrace[i].s
        /\ s' = _TETrace[j].s
        /\ hist  = _TETrace[i].hist
        /\ hist' = _TETrace[j].hist

\* Uncomment the ASSUME below to write the states of the error trace
\* to the given file in Json format. Note that you can pass any tuple
\* to `JsonSerialize`. For example, a sub-sequence of _TETrace.
    \* ASSUME
    \*     LET J == INSTANCE Json
    \*         IN J!JsonSerialize("MC_AcmodPipe_TTrace_1790465645.json", _TETrace)

=============================================================================

 Note that you can extract this module `MC_AcmodPipe_TEExpression`
  to a dedicated file to reuse `expression` (the module in the 
  dedicated `MC_AcmodPipe_TEExpression.tla` file takes precedence 
  over the module `MC_AcmodPipe_TEExpression` below).

---- MODULE MC_AcmodPipe_TEExpression ----
EXTENDS Sequences, MC_AcmodPipe, TLCExt, Toolbox, Naturals, TLC

expression == 
    [
        \* To hide variables of the `MC_AcmodPipe` spec from the error trace,
        \* remove the variables below.  The trace will be written in the order
        \* of the fields of this record.
        s |-> s
        ,hist |-> hist
        
        \* Put additional constant-, state-, and action-level expressions here:
        \* ,_stateNumber |-> _TEPosition
        \* ,_sUnchanged |-> s = s'
        
        \* Format the `s` variable as Json value.
        \* ,_sJson |->
        \*     LET J == INSTANCE Json
        \*     IN J!ToJson(s)
        
        \* Lastly, you may build expressions over arbitrary sets of states by
        \* leveraging the _TETrace operator.  For example, this is how to
        \* count the number of times a spec variable changed up to the current
        \* state in the trace.
        \* ,_sModCount |->
        \*     LET F[s \in DOMAIN _TETrace] ==
        \*         IF s = 1 THEN 0
        \*         ELSE IF _TETrace[s].s # _TETrace[s-1].s
        \*             THEN 1 + F[s-1] ELSE F[s-1]
        \*     IN F[_TEPosition - 1]
    ]

=============================================================================



Parsing and semantic processing can take forever if the trace below is long.
 In this case, it is advised to uncomment the module below to deserialize the
 trace from a generated binary file.

\*
\*---- MODULE MC_AcmodPipe_TETrace ----
\*EXTENDS IOUtils, MC_AcmodPipe, TLC
\*
\*trace == IODeserialize("MC_AcmodPipe_TTrace_1790465645.bin", TRUE)
\*
\*=============================================================================
\*

---- MODULE MC_AcmodPipe_TETrace ----
EXTENDS MC_AcmodPipe, TLC

trace == 
    <<
    ([hist |-> <<>>,s |-> [mfc |-> (0 :> -1 @@ 1 :> -1 @@ 2 :> -1), outidx |-> 0, nmfc |-> 0, cep |-> (0 :> -1 @@ 1 :> -1 @@ 2 :> -1 @@ 3 :> -1 @@ 4 :> -1 @@ 5 :> -1), bufpos |-> 0, curpos |-> 0, feat |-> <<>>, featout |-> 0, nfeat |-> 0, state |-> "IDLE", next |-> 0, searched |-> <<>>, lost |-> FALSE, ma |-> 3, feended |-> FALSE, nutt |-> 0]]),
    ([hist |-> <<<<"start">>>>,s |-> [mfc |-> (0 :> -1 @@ 1 :> -1 @@ 2 :> -1), outidx |-> 0, nmfc |-> 0, cep |-> (0 :> -1 @@ 1 :> -1 @@ 2 :> -1 @@ 3 :> -1 @@ 4 :> -1 @@ 5 :> -1), bufpos |-> 0, curpos |-> 0, feat |-> <<>>, featout |-> 0, nfeat |-> 0, state |-> "STARTED", next |-> 0, searched |-> <<>>, lost |-> FALSE, ma |-> 3, feended |-> FALSE, nutt |-> 1]]),
    ([hist |-> <<<<"start">>, <<"process", 2, FALSE>>>>,s |-> [mfc |-> (0 :> 0 @@ 1 :> 1 @@ 2 :> -1), outidx |-> 2, nmfc |-> 0, cep |-> (0 :> 0 @@ 1 :> 0 @@ 2 :> 1 @@ 3 :> -1 @@ 4 :> -1 @@ 5 :> -1), bufpos |-> 3, curpos |-> 2, feat |-> <<<<0, 0, 1>>>>, featout |-> 1, nfeat |-> 0, state |-> "PROCESSING", next |-> 2, searched |-> <<<<0, 0, 1>>>>, lost |-> FALSE, ma |-> 3, feended |-> FALSE, nutt |-> 1]]),
    ([hist |-> <<<<"start">>, <<"process", 2, FALSE>>, <<"process", 1, FALSE>>>>,s |-> [mfc |-> (0 :> 0 @@ 1 :> 1 @@ 2 :> 2), outidx |-> 0, nmfc |-> 0, cep |-> (0 :> 0 @@ 1 :> 0 @@ 2 :> 1 @@ 3 :> 2 @@ 4 :> -1 @@ 5 :> -1), bufpos |-> 4, curpos |-> 3, feat |-> <<<<0, 0, 1>>, <<0, 1, 2>>>>, featout |-> 2, nfeat |-> 0, state |-> "PROCESSING", next |-> 3, searched |-> <<<<0, 0, 1>>, <<0, 1, 2>>>>, lost |-> FALSE, ma |-> 3, feended |-> FALSE, nutt |-> 1]]),
    ([hist |-> <<<<"start">>, <<"process", 2, FALSE>>, <<"process", 1, FALSE>>, <<"process", 4, FALSE>>>>,s |-> [mfc |-> (0 :> 6 @@ 1 :> 4 @@ 2 :> 5), outidx |-> 1, nmfc |-> 0, cep |-> (0 :> 5 @@ 1 :> 6 @@ 2 :> 1 @@ 3 :> 2 @@ 4 :> 3 @@ 5 :> 4), bufpos |-> 2, curpos |-> 1, feat |-> <<<<0, 0, 1>>, <<0, 1, 2>>, <<1, 2, 3>>, <<2, 3, 4>>, <<3, 4, 5>>, <<4, 5, 6>>>>, featout |-> 6, nfeat |-> 0, state |-> "PROCESSING", next |-> 7, searched |-> <<<<0, 0, 1>>, <<0, 1, 2>>, <<1, 2, 3>>, <<2, 3, 4>>, <<3, 4, 5>>, <<4, 5, 6>>>>, lost |-> FALSE, ma |-> 3, feended |-> FALSE, nutt |-> 1]]),
    ([hist |-> <<<<"start">>, <<"process", 2, FALSE>>, <<"process", 1, FALSE>>, <<"process", 4, FALSE>>, <<"end", 1>>>>,s |-> [mfc |-> (0 :> 6 @@ 1 :> 7 @@ 2 :> 5), outidx |-> 2, nmfc |-> 0, cep |-> (0 :> 5 @@ 1 :> 6 @@ 2 :> 7 @@ 3 :> 7 @@ 4 :> 3 @@ 5 :> 4), bufpos |-> 4, curpos |-> 3, feat |-> <<<<0, 0, 1>>, <<0, 1, 2>>, <<1, 2, 3>>, <<2, 3, 4>>, <<3, 4, 5>>, <<4, 5, 6>>, <<5, 6, 7>>, <<6, 7, 7>>>>, featout |-> 8, nfeat |-> 0, state |-> "ENDED", next |-> 8, searched |-> <<<<0, 0, 1>>, <<0, 1, 2>>, <<1, 2, 3>>, <<2, 3, 4>>, <<3, 4, 5>>, <<4, 5, 6>>, <<5, 6, 7>>, <<6, 7, 7>>>>, lost |-> FALSE, ma |-> 3, feended |-> FALSE, nutt |-> 1]]),
    ([hist |-> <<<<"start">>, <<"process", 2, FALSE>>, <<"process", 1, FALSE>>, <<"process", 4, FALSE>>, <<"end", 1>>, <<"start">>>>,s |-> [mfc |-> (0 :> 6 @@ 1 :> 7 @@ 2 :> 5), outidx |-> 2, nmfc |-> 0, cep |-> (0 :> 5 @@ 1 :> 6 @@ 2 :> 7 @@ 3 :> 7 @@ 4 :> 3 @@ 5 :> 4), bufpos |-> 4, curpos |-> 3, feat |-> <<>>, featout |-> 0, nfeat |-> 0, state |-> "STARTED", next |-> 0, searched |-> <<>>, lost |-> FALSE, ma |-> 3, feended |-> FALSE, nutt |-> 2]]),
    ([hist |-> <<<<"start">>, <<"process", 2, FALSE>>, <<"process", 1, FALSE>>, <<"process", 4, FALSE>>, <<"end", 1>>, <<"start">>, <<"process", 3, FALSE>>>>,s |-> [mfc |-> (0 :> 1 @@ 1 :> 2 @@ 2 :> 0), outidx |-> 2, nmfc |-> 0, cep |-> (0 :> 2 @@ 1 :> 6 @@ 2 :> 7 @@ 3 :> 0 @@ 4 :> 1 @@ 5 :> 1), bufpos |-> 1, curpos |-> 0, feat |-> <<<<1, 1, 2>>>>, featout |-> 1, nfeat |-> 0, state |-> "PROCESSING", next |-> 3, searched |-> <<<<1, 1, 2>>>>, lost |-> FALSE, ma |-> 3, feended |-> FALSE, nutt |-> 2]])
    >>
----


=============================================================================

---- CONFIG MC_AcmodPipe_TTrace_1790465645 ----
CONSTANTS
    W = 1
    MA = 3
    LB = 6
    MaxCep = 9
    CapFix = TRUE
    MaxUtt = 2
    StartedFix = TRUE
    OutIdxReset <- KeepIdx

INVARIANT
    _inv

CHECK_DEADLOCK
    \* CHECK_DEADLOCK off because of PROPERTY or INVARIANT above.
    FALSE

INIT
    _init

NEXT
    _next

CONSTANT
    _TETrace <- _trace

ALIAS
    _expression
=============================================================================
\* Generated on Sat Sep 26 23:34:07 UTC 2026