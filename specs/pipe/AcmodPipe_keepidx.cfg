SPECIFICATION Spec
CONSTANTS
  W = 1
  MA = 3
  LB = 6
  MaxCep = 9
  CapFix = TRUE
  MaxUtt = 2
  StartedFix = TRUE
  OutIdxReset <- KeepIdx
INVARIANTS NoRingOverrun SearchedAreWindows CompleteAtEnd
VIEW View
CHECK_DEADLOCK FALSE
