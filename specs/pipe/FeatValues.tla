----------------------------- MODULE FeatValues -----------------------------
(***************************************************************************)
(* The VALUES of the dynamic features (src/feat.c, the *_cep2feat family   *)
(* behind feat_s2mfc2feat_live), as functions of the cepstra of an         *)
(* utterance.  FeatStream says which window of cepstra each feature frame  *)
(* is computed from; this module says what is computed from it.            *)
(*   cep    sequence of N cepstral frames, each a sequence of L integers   *)
(*          (component 1 is c0)                                            *)
(*   C(t,i) component i of frame t, with the first / last frame standing   *)
(*          in beyond the ends of the utterance (replication)              *)
(* Feature types (config "feat"), FEAT_DCEP_WIN = 2:                       *)
(*   1s_c          c                                                       *)
(*   1s_c_d        c, d         d  = C(t+2) - C(t-2)                       *)
(*   1s_c_d_dd     c, d, dd     dd = (C(t+3)-C(t-1)) - (C(t+1)-C(t-3))     *)
(*   1s_c_d_ld_dd  c, d, ld, dd ld = C(t+4) - C(t-4)                       *)
(*   s3_1x39       c[2..13], d[2..13], c0, d0, dd0, dd[2..13]   (L = 13)   *)
(*   s2_4x         four streams: c[2..13] | d[2..13], ld[2..13] |          *)
(*                 c0, d0, dd0 | dd[2..13]                      (L = 13)   *)
(* With integer-valued cepstra every operation is exact in floating point, *)
(* so the driver's output can be compared with these integers exactly.     *)
(***************************************************************************)
EXTENDS Integers, Sequences

Clamp(t, n) == IF t < 1 THEN 1 ELSE IF t > n THEN n ELSE t
C(cep, t, i) == cep[Clamp(t, Len(cep))][i]
D(cep, t, i, w) == C(cep, t + w, i) - C(cep, t - w, i)
DD(cep, t, i) == (C(cep, t + 3, i) - C(cep, t - 1, i)) - (C(cep, t + 1, i) - C(cep, t - 3, i))

Vec(cep, t, is) == [k \in DOMAIN is |-> C(cep, t, is[k])]
DVec(cep, t, is, w) == [k \in DOMAIN is |-> D(cep, t, is[k], w)]
DDVec(cep, t, is) == [k \in DOMAIN is |-> DD(cep, t, is[k])]

All(L) == [k \in 1..L |-> k]
Rest(L) == [k \in 1..(L - 1) |-> k + 1]          \* components after c0

\* one feature frame, all streams concatenated in order
Frame(type, cep, t, L) ==
    CASE type = "1s_c" -> Vec(cep, t, All(L))
      [] type = "1s_c_d" -> Vec(cep, t, All(L)) \o DVec(cep, t, All(L), 2)
      [] type = "1s_c_d_dd" -> Vec(cep, t, All(L)) \o DVec(cep, t, All(L), 2) \o DDVec(cep, t, All(L))
      [] type = "1s_c_d_ld_dd" -> Vec(cep, t, All(L)) \o DVec(cep, t, All(L), 2) \o DVec(cep, t, All(L), 4) \o DDVec(cep, t, All(L))
      [] type = "s3_1x39" -> Vec(cep, t, Rest(L)) \o DVec(cep, t, Rest(L), 2)
                             \o <<C(cep, t, 1), D(cep, t, 1, 2), DD(cep, t, 1)>> \o DDVec(cep, t, Rest(L))
      [] type = "s2_4x" -> Vec(cep, t, Rest(L)) \o DVec(cep, t, Rest(L), 2) \o DVec(cep, t, Rest(L), 4)
                           \o <<C(cep, t, 1), D(cep, t, 1, 2), DD(cep, t, 1)>> \o DDVec(cep, t, Rest(L))

Features(type, cep, L) == [t \in 1..Len(cep) |-> Frame(type, cep, t, L)]
\* the window of frames a type looks at on either side
Window(type) == CASE type = "1s_c" -> 0 [] type = "1s_c_d" -> 2 [] type \in {"1s_c_d_dd", "s3_1x39"} -> 3
                  [] type \in {"1s_c_d_ld_dd", "s2_4x"} -> 4
=============================================================================
