----------------------------- MODULE FeatTrace -----------------------------
(***************************************************************************)
(* Feature frames computed by the real feat_s2mfc2feat_live from integer   *)
(* cepstra handed over in arbitrary pieces (harness/feat/feat_drv.c)       *)
(* against FeatValues.  Clause "count" (one feature frame per cepstral     *)
(* frame, whatever the pieces) is C07's; "values" is the extended          *)
(* specification of what each frame holds.                                 *)
(***************************************************************************)
EXTENDS FeatValues, TLC, Json, IOUtils
JTrace == ndJsonDeserialize(IOEnv.TRACE)
VARIABLE l
Ev == JTrace[l]
Clause(name, cond) == IF cond THEN TRUE ELSE PrintT(<<"CLAUSE-FAILED", name, l>>) /\ FALSE
TInit == l = 1 /\ TLCSet(1, 0)
TFeat == /\ Ev.e = "Feat"
         /\ Clause("count", Len(Ev.out) = Len(Ev.cep))
         /\ Clause("window", Ev.win = Window(Ev.type))
         /\ Clause("values", Ev.out = Features(Ev.type, Ev.cep, Ev.ceplen))
TNext == l <= Len(JTrace) /\ TFeat /\ l' = l + 1 /\ TLCSet(1, l)
TSpec == TInit /\ [][TNext]_l
Accepted == IF TLCGet(1) = Len(JTrace) THEN TRUE ELSE PrintT(<<"REJECTED-AT", TLCGet(1) + 1>>) /\ FALSE
=============================================================================
