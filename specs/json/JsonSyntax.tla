----------------------------- MODULE JsonSyntax -----------------------------
(***************************************************************************)
(* Layer A (syntax half) for C14: RFC 8259 JSON over a sequence of bytes,  *)
(* as a deterministic recursive-descent acceptor that builds the value:    *)
(*   [t |-> "o", m |-> <<<<key bytes, value>>, ...>>]   object             *)
(*   [t |-> "a", m |-> <<value, ...>>]                  array              *)
(*   [t |-> "s", s |-> <<code, ...>>]                   string (unescaped) *)
(*   [t |-> "n", neg, ip, fp, ex]                       number (digit seqs)*)
(*   [t |-> "l", s |-> "true" | "false" | "null"]       literal            *)
(* Every parser returns [ok, v, p] with p the position after the value.    *)
(***************************************************************************)
EXTENDS Naturals, Integers, Sequences

Fail == [ok |-> FALSE, v |-> [t |-> "x"], p |-> 0]
Ok(v, p) == [ok |-> TRUE, v |-> v, p |-> p]

IsWS(c) == c \in {32, 9, 10, 13}
IsDigit(c) == c >= 48 /\ c <= 57
IsHex(c) == IsDigit(c) \/ (c >= 65 /\ c <= 70) \/ (c >= 97 /\ c <= 102)
HexVal(c) == IF IsDigit(c) THEN c - 48 ELSE IF c >= 97 THEN c - 87 ELSE c - 55
At(s, p) == IF p >= 1 /\ p <= Len(s) THEN s[p] ELSE -1

RECURSIVE SkipWS(_, _)
SkipWS(s, p) == IF IsWS(At(s, p)) THEN SkipWS(s, p + 1) ELSE p

\* p points just after the opening quote
RECURSIVE PStr(_, _, _)
PStr(s, p, acc) ==
    LET c == At(s, p)
    IN IF c = -1 \/ (c >= 0 /\ c < 32) THEN Fail               \* unterminated / raw control character
       ELSE IF c = 34 THEN Ok([t |-> "s", s |-> acc], p + 1)
       ELSE IF c = 92
       THEN LET e == At(s, p + 1)
            IN IF e \in {34, 92, 47} THEN PStr(s, p + 2, Append(acc, e))
               ELSE IF e = 98 THEN PStr(s, p + 2, Append(acc, 8))
               ELSE IF e = 102 THEN PStr(s, p + 2, Append(acc, 12))
               ELSE IF e = 110 THEN PStr(s, p + 2, Append(acc, 10))
               ELSE IF e = 114 THEN PStr(s, p + 2, Append(acc, 13))
               ELSE IF e = 116 THEN PStr(s, p + 2, Append(acc, 9))
               ELSE IF e = 117 /\ IsHex(At(s, p + 2)) /\ IsHex(At(s, p + 3)) /\ IsHex(At(s, p + 4)) /\ IsHex(At(s, p + 5))
               THEN PStr(s, p + 6, Append(acc, HexVal(s[p+2]) * 4096 + HexVal(s[p+3]) * 256 + HexVal(s[p+4]) * 16 + HexVal(s[p+5])))
               ELSE Fail
       ELSE PStr(s, p + 1, Append(acc, c))

RECURSIVE Digits(_, _, _)
Digits(s, p, acc) == IF IsDigit(At(s, p)) THEN Digits(s, p + 1, Append(acc, s[p] - 48)) ELSE [d |-> acc, p |-> p]

PNum(s, p0) ==
    LET neg == At(s, p0) = 45
        p1 == IF neg THEN p0 + 1 ELSE p0
        ip == Digits(s, p1, <<>>)
    IN IF ip.d = <<>> \/ (Len(ip.d) > 1 /\ ip.d[1] = 0) THEN Fail         \* no digits / leading zero
       ELSE LET hasfrac == At(s, ip.p) = 46
                fp == IF hasfrac THEN Digits(s, ip.p + 1, <<>>) ELSE [d |-> <<>>, p |-> ip.p]
            IN IF hasfrac /\ fp.d = <<>> THEN Fail
               ELSE LET hasexp == At(s, fp.p) \in {69, 101}
                        sg == IF hasexp /\ At(s, fp.p + 1) \in {43, 45} THEN fp.p + 2 ELSE fp.p + 1
                        ex == IF hasexp THEN Digits(s, sg, <<>>) ELSE [d |-> <<>>, p |-> fp.p]
                    IN IF hasexp /\ ex.d = <<>> THEN Fail
                       ELSE Ok([t |-> "n", neg |-> neg, ip |-> ip.d, fp |-> fp.d, ex |-> hasexp], ex.p)

Lit(s, p, word, name) ==
    IF \A i \in DOMAIN word : At(s, p + i - 1) = word[i] THEN Ok([t |-> "l", s |-> name], p + Len(word)) ELSE Fail

RECURSIVE PVal(_, _), PArr(_, _, _), PObj(_, _, _)
PVal(s, p0) ==
    LET p == SkipWS(s, p0)
        c == At(s, p)
    IN IF c = 123 THEN PObj(s, SkipWS(s, p + 1), <<>>)
       ELSE IF c = 91 THEN PArr(s, SkipWS(s, p + 1), <<>>)
       ELSE IF c = 34 THEN PStr(s, p + 1, <<>>)
       ELSE IF c = 45 \/ IsDigit(c) THEN PNum(s, p)
       ELSE IF c = 116 THEN Lit(s, p, <<116, 114, 117, 101>>, "true")
       ELSE IF c = 102 THEN Lit(s, p, <<102, 97, 108, 115, 101>>, "false")
       ELSE IF c = 110 THEN Lit(s, p, <<110, 117, 108, 108>>, "null")
       ELSE Fail

\* p is after '[' and whitespace (items = <<>>) or after a ',' 
PArr(s, p, items) ==
    IF items = <<>> /\ At(s, p) = 93 THEN Ok([t |-> "a", m |-> <<>>], p + 1)
    ELSE LET r == PVal(s, p)
         IN IF ~r.ok THEN Fail
            ELSE LET q == SkipWS(s, r.p)
                 IN IF At(s, q) = 44 THEN PArr(s, q + 1, Append(items, r.v))
                    ELSE IF At(s, q) = 93 THEN Ok([t |-> "a", m |-> Append(items, r.v)], q + 1)
                    ELSE Fail

PObj(s, p0, items) ==
    LET p == SkipWS(s, p0)
    IN IF items = <<>> /\ At(s, p) = 125 THEN Ok([t |-> "o", m |-> <<>>], p + 1)
       ELSE IF At(s, p) # 34 THEN Fail
       ELSE LET k == PStr(s, p + 1, <<>>)
            IN IF ~k.ok THEN Fail
               ELSE LET c == SkipWS(s, k.p)
                    IN IF At(s, c) # 58 THEN Fail
                       ELSE LET r == PVal(s, c + 1)
                            IN IF ~r.ok THEN Fail
                               ELSE LET q == SkipWS(s, r.p)
                                        it == Append(items, <<k.v.s, r.v>>)
                                    IN IF At(s, q) = 44 THEN PObj(s, q + 1, it)
                                       ELSE IF At(s, q) = 125 THEN Ok([t |-> "o", m |-> it], q + 1)
                                       ELSE Fail

\* "one syntactically valid JSON object terminated by a newline": the object, then exactly "\n", then end
ParseLine(s) == LET r == PVal(s, 1)
                IN IF r.ok /\ r.v.t = "o" /\ r.p = Len(s) /\ At(s, r.p) = 10 THEN r ELSE Fail

-----------------------------------------------------------------------------
(* helpers for reading the value *)
HasKey(o, k) == \E i \in DOMAIN o.m : o.m[i][1] = k
Get(o, k) == o.m[CHOOSE i \in DOMAIN o.m : o.m[i][1] = k /\ \A j \in 1..(i-1) : o.m[j][1] # k][2]
UniqueKeys(o) == \A i, j \in DOMAIN o.m : i # j => o.m[i][1] # o.m[j][1]

RECURSIVE DigitsVal(_)
DigitsVal(d) == IF d = <<>> THEN 0 ELSE DigitsVal(SubSeq(d, 1, Len(d) - 1)) * 10 + d[Len(d)]
\* a number printed with exactly three decimals, in thousandths
IsMilli(v) == v.t = "n" /\ Len(v.fp) = 3 /\ ~v.ex /\ Len(v.ip) <= 6
Milli(v) == (IF v.neg THEN -1 ELSE 1) * (DigitsVal(v.ip) * 1000 + DigitsVal(v.fp))
=============================================================================
