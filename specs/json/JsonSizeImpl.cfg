SPECIFICATION Spec
CONSTANTS
  MinWords = 1
  Lens = {5, 9}
  MaxN = 2
INVARIANTS InBounds ExactSize ClosesList
CHECK_DEADLOCK FALSE
