------------------------------ MODULE JsonTrace ------------------------------
(***************************************************************************)
(* Layer C for C14: every JSON line returned by decoder_result_json is     *)
(* parsed with JsonSyntax and compared with what decoder_hyp,              *)
(* decoder_seg_iter and decoder_alignment report for the same result (the  *)
(* "view" recorded in the same event).                                     *)
(***************************************************************************)
EXTENDS JsonSyntax, TLC, Json, IOUtils

JTrace == ndJsonDeserialize(IOEnv.TRACE)
VARIABLES l
Ev == JTrace[l]

KB == <<98>>  KD == <<100>>  KP == <<112>>  KT == <<116>>  KW == <<119>>

Clause(name, cond) == IF cond THEN TRUE ELSE PrintT(<<"CLAUSE-FAILED", name, l>>) /\ FALSE
Abs(x) == IF x < 0 THEN -x ELSE x
Near(a, b) == Abs(a - b) <= 1         \* binary rounding of %.3f: one thousandth

\* an entry of a "w" list against the view: text, start, duration, probability, children
\* times: frame index divided by frame rate plus the offset, in thousandths
RECURSIVE EntryOK(_, _, _, _)
EntryOK(o, v, startms, frate) ==
    /\ o.t = "o" /\ UniqueKeys(o)
    /\ HasKey(o, KB) /\ HasKey(o, KD) /\ HasKey(o, KP) /\ HasKey(o, KT)
    /\ Get(o, KT).t = "s" /\ Get(o, KT).s = v.t
    /\ IsMilli(Get(o, KB)) /\ Near(Milli(Get(o, KB)), startms + (v.s * 1000) \div frate)
    /\ IsMilli(Get(o, KD)) /\ Near(Milli(Get(o, KD)), (v.d * 1000) \div frate)
    /\ IsMilli(Get(o, KP)) /\ Near(Milli(Get(o, KP)), v.pm)
    /\ LET kids == IF HasKey(o, KW) THEN Get(o, KW) ELSE [t |-> "a", m |-> <<>>]
       IN /\ kids.t = "a" /\ Len(kids.m) = Len(v.w)
          /\ \A i \in DOMAIN kids.m : EntryOK(kids.m[i], v.w[i], startms, frate)

JsonOK == LET r == ParseLine(Ev.bytes)
          IN /\ Clause("syntax", r.ok)
             /\ Clause("length-is-allocation", Len(Ev.bytes) + 1 = Ev.alloc /\ Ev.len = Len(Ev.bytes))
             /\ r.ok =>
                  LET o == r.v
                  IN /\ Clause("top-fields", UniqueKeys(o) /\ HasKey(o, KB) /\ HasKey(o, KD) /\ HasKey(o, KP)
                                            /\ HasKey(o, KT) /\ HasKey(o, KW))
                     /\ Clause("text-is-hypothesis", Get(o, KT).t = "s" /\ Get(o, KT).s = Ev.hyp)
                     /\ Clause("start", IsMilli(Get(o, KB)) /\ Near(Milli(Get(o, KB)), Ev.start_ms))
                     /\ Clause("duration", IsMilli(Get(o, KD)) /\ Near(Milli(Get(o, KD)), (Ev.nfr * 1000) \div Ev.frate))
                     /\ Clause("probability", IsMilli(Get(o, KP)) /\ Near(Milli(Get(o, KP)), Ev.pm))
                     \* at alignment levels the listed words are the dictionary words of the segmentation of THIS
                     \* result, with its frames (not those of an alignment computed for something else)
                     /\ Clause("aligned-words-are-segments",
                               Ev.level >= 1 => /\ Len(Ev.view) = Len(Ev.dsegs)
                                                /\ \A i \in DOMAIN Ev.view : /\ Ev.view[i].t = Ev.dsegs[i].t
                                                                             /\ Ev.view[i].s = Ev.dsegs[i].s
                                                                             /\ Ev.view[i].d = Ev.dsegs[i].d)
                     /\ Clause("list-length", Get(o, KW).t = "a" /\ Len(Get(o, KW).m) = Len(Ev.view))
                     /\ Clause("entries", \A i \in DOMAIN Ev.view :
                                             i \in DOMAIN Get(o, KW).m =>
                                             EntryOK(Get(o, KW).m[i], Ev.view[i], Ev.start_ms, Ev.frate))

TInit == l = 1 /\ TLCSet(1, 0)
TJson == Ev.e = "Json" /\ (IF Ev.null THEN TRUE ELSE JsonOK)
TOther == Ev.e # "Json"
TNext == /\ l <= Len(JTrace)
         /\ (TJson \/ TOther)
         /\ l' = l + 1
         /\ TLCSet(1, l)
TSpec == TInit /\ [][TNext]_l
Accepted == IF TLCGet(1) = Len(JTrace) THEN TRUE
            ELSE PrintT(<<"REJECTED-AT", TLCGet(1) + 1>>) /\ FALSE
=============================================================================
