---------------------------- MODULE JsonSizeImpl ----------------------------
(***************************************************************************)
(* Layer B for C14: the two-pass bookkeeping of decoder_result_json().     *)
(* Pass 1 adds up the length of every piece it is going to write (each     *)
(* snprintf'ed head has an abstract length from Lens; the punctuation      *)
(* constants are the ones in the C code), allocates that many bytes, and   *)
(* pass 2 writes the pieces while decrementing the remaining size; at the  *)
(* end the code asserts that exactly 3 bytes remain for "}\n\0".           *)
(* Shapes: level 0 with 0..MaxN segments; level 1/2 with 0..MaxN words,    *)
(* 1..MaxN phones per word, 1..MaxN states per phone.                      *)
(* Invariants: the write position never passes the allocation; at the end  *)
(* written + 1 = allocated; the ',' -> ']' overwrite hits a ',' or the     *)
(* '[' is never overwritten.                                               *)
(***************************************************************************)
EXTENDS Naturals, Integers, Sequences, TLC

CONSTANTS MinWords,
          Lens,    \* possible lengths of a formatted head {"b":..,"t":"..."
          MaxN

VARIABLES shape,   \* [level, items]  items: seq of words; word = seq of phones; phone = number of states
          pieces,  \* the flattened list of pieces of this shape, each [len, kind]
          pc, maxlen, alloc, pos, lastbyte, i
vars == <<shape, pieces, pc, maxlen, alloc, pos, lastbyte, i>>

\* flatten: sequence of [len |-> n, last |-> last byte written] in writing order, per the C code
HeadP(h) == [len |-> h, last |-> "q"]          \* ... "t":"word"   (ends with a quote)
Lit(n, c) == [len |-> n, last |-> c]

RECURSIVE StatePieces(_, _), PhonePieces(_, _, _), WordPieces(_, _, _)
StatePieces(n, h) == IF n = 0 THEN <<>>
                     ELSE <<HeadP(h), Lit(1, "}")>> \o (IF n > 1 THEN <<Lit(1, ",")>> ELSE <<>>) \o StatePieces(n - 1, h)
PhonePieces(ph, lvl, h) ==
    IF ph = <<>> THEN <<>>
    ELSE <<HeadP(h)>> \o
         (IF lvl = 2 THEN <<Lit(6, "[")>> \o StatePieces(ph[1], h) \o <<Lit(1, "]")>> ELSE <<>>) \o
         <<Lit(1, "}")>> \o (IF Len(ph) > 1 THEN <<Lit(1, ",")>> ELSE <<>>) \o PhonePieces(Tail(ph), lvl, h)
\* format_seg_align: head, ,"w":[ , phones, ]}   then the caller adds ','
WordPieces(ws, lvl, h) ==
    IF ws = <<>> THEN <<>>
    ELSE <<HeadP(h), Lit(6, "[")>> \o PhonePieces(ws[1], lvl, h) \o <<Lit(2, "}")>> \o <<Lit(1, ",")>> \o WordPieces(Tail(ws), lvl, h)
\* format_seg: head + '}' then the caller adds ','
RECURSIVE SegPieces(_, _)
SegPieces(n, h) == IF n = 0 THEN <<>> ELSE <<HeadP(h), Lit(1, "}"), Lit(1, ",")>> \o SegPieces(n - 1, h)

Phones == UNION {[1..k -> 1..MaxN] : k \in 1..MaxN}
\* An alignment with ZERO words cannot be handed to the formatter through the API: decoder_alignment()
\* returns NULL when there is no segmentation, and fillers are dictionary words.  (With k = 0 allowed
\* the model shows the latent slip: pass 1 counts a byte for "]" that the alignment branch of pass 2
\* never writes, so the closing "]" overwrites "[" and assert(maxlen == 3) fails.  MinWords = 0
\* reproduces it; the checked configuration uses MinWords = 1.)
Words == UNION {[1..k -> Phones] : k \in MinWords..MaxN}
Shapes == {[level |-> 0, n |-> n, words |-> <<>>] : n \in 0..MaxN} \cup
          {[level |-> lv, n |-> 0, words |-> w] : lv \in {1, 2}, w \in Words}

Body(s, h) == IF s.level = 0 THEN SegPieces(s.n, h) ELSE WordPieces(s.words, s.level, h)
Empty(s) == IF s.level = 0 THEN s.n = 0 ELSE s.words = <<>>

Init == /\ shape \in Shapes
        /\ \E h \in Lens : pieces = <<HeadP(h), Lit(6, "[")>> \o Body(shape, h)
        /\ pc = "count" /\ maxlen = 0 /\ alloc = 0 /\ pos = 0 /\ lastbyte = "" /\ i = 1

\* pass 1: maxlen += length of every piece; an empty list counts one byte for the ']' ("] at end");
\* the per-item ',' doubles as the final ']'
CountPiece == /\ pc = "count" /\ i <= Len(pieces)
              /\ maxlen' = maxlen + pieces[i].len
              /\ i' = i + 1
              /\ UNCHANGED <<shape, pieces, pc, alloc, pos, lastbyte>>
EndCount == /\ pc = "count" /\ i > Len(pieces)
            /\ LET m == maxlen + (IF Empty(shape) THEN 1 ELSE 0) + 3     \* final } \n \0
               IN alloc' = m /\ maxlen' = m
            /\ pc' = "write" /\ i' = 1 /\ pos' = 0
            /\ UNCHANGED <<shape, pieces, lastbyte>>
\* pass 2
WritePiece == /\ pc = "write" /\ i <= Len(pieces)
              /\ pos' = pos + pieces[i].len /\ maxlen' = maxlen - pieces[i].len
              /\ lastbyte' = pieces[i].last /\ i' = i + 1
              /\ UNCHANGED <<shape, pieces, pc, alloc>>
\* empty segment list at level 0 writes a ']' that "gets overwritten below"; then --ptr; *ptr++ = ']'
Finish == /\ pc = "write" /\ i > Len(pieces)
          /\ LET extra == IF shape.level = 0 /\ Empty(shape) THEN 1 ELSE 0
                 p1 == pos + extra
                 over == IF extra = 1 THEN "]" ELSE lastbyte       \* the byte that --ptr; *ptr++ = ']' overwrites
             IN /\ pos' = p1 + 2                                    \* "}\n"
                /\ maxlen' = maxlen - extra
                /\ lastbyte' = over
          /\ pc' = "done"
          /\ UNCHANGED <<shape, pieces, alloc, i>>

Next == CountPiece \/ EndCount \/ WritePiece \/ Finish
Spec == Init /\ [][Next]_vars

\* never write past the allocation
InBounds == pc = "write" => pos < alloc
\* assert(maxlen == 3) and the string (pos bytes) plus NUL is exactly the allocation
ExactSize == pc = "done" => (maxlen = 3 /\ pos + 1 = alloc)
\* the byte replaced by the closing ']' is a ',' (or the provisional ']'), never the '[' of an empty list
ClosesList == pc = "done" => lastbyte \in {",", "]"}
=============================================================================
