SPECIFICATION Spec
CONSTANTS
  FixTop = TRUE
  FixVoid = TRUE
  FixTail = TRUE
  Size = 1
INVARIANTS InvFixed
CHECK_DEADLOCK FALSE
