SPECIFICATION Spec
CONSTANTS
  FixTop = FALSE
  FixVoid = FALSE
  FixTail = FALSE
  Size = 1
INVARIANTS InvAsIs
CHECK_DEADLOCK FALSE
