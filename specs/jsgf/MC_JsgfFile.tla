---------------------------- MODULE MC_JsgfFile ----------------------------
(* JsgfCompileImpl checked on every grammar of a family written by the check driver        *)
(* (checks/c05.py) as ndjson, one {"ast": grammar, "iss": [...]} per line: the same family *)
(* that is then compiled by the real library.  The grammars are dealt to W lanes so that   *)
(* TLC's workers evaluate different grammars in parallel; one state per grammar.           *)
EXTENDS JsgfCompileImpl, TLC, Json, IOUtils
Asts == ndJsonDeserialize(IOEnv.ASTS)
K == 4
W == 64
VARIABLE i
Init == i \in 1..(IF Len(Asts) < W THEN Len(Asts) ELSE W)
Next == i + W <= Len(Asts) /\ i' = i + W
Spec == Init /\ [][Next]_i
G == Asts[i].ast
InvAsIs == AsIsOK(G, K)
InvFixed == FixedOK(G, K)
\* the driver's own analysis of the grammar (used to choose inputs and to name violations) agrees
\* with JsgfSem
InvTwin == IF NoPublic(G) THEN ToSet(Asts[i].iss) = {"nopublic"} ELSE ToSet(Asts[i].iss) = Issues(G)
=============================================================================
