SPECIFICATION Spec
CONSTANTS
  FixTop = TRUE
  FixVoid = TRUE
  FixTail = TRUE
  Size = 2
INVARIANTS InvFixed
CHECK_DEADLOCK FALSE
