SPECIFICATION Spec
CONSTANTS
  FixTop = FALSE
  FixVoid = FALSE
  FixTail = FALSE
  Size = 3
INVARIANTS InvAsIs
CHECK_DEADLOCK FALSE
