------------------------------ MODULE JsgfSem ------------------------------
(***************************************************************************)
(* Layer A for C05: what a JSGF grammar MEANS, independently of how        *)
(* jsgf.c compiles it.                                                     *)
(*                                                                         *)
(* A grammar is plain data (it travels as JSON from the generator through  *)
(* the harness into the trace):                                            *)
(*   G      = [rules |-> << rule, ... >>]            (textual order)       *)
(*   rule   = << name, public (0/1), alts >>                               *)
(*   alts   = << alt, ... >>                         (textual order)       *)
(*   alt    = << weight (integer >= 1), << item, ... >> >>                 *)
(*   item   = <<"t", word>>     token                                      *)
(*          | <<"q", word>>     token written in double quotes             *)
(*          | <<"r", name>>     rule reference  <name>                     *)
(*          | <<"n">>           <NULL>                                     *)
(*          | <<"v">>           <VOID>                                     *)
(*          | <<"g", alts>>     ( ... )                                    *)
(*          | <<"o", alts>>     [ ... ]                                    *)
(*          | <<"k", item>>     item *                                     *)
(*          | <<"p", item>>     item +                                     *)
(*          | <<"x", item>>     item {tag}           (tags mean nothing)   *)
(* The sentence the grammar speaks is that of its public rule.             *)
(***************************************************************************)
EXTENDS Naturals, Integers, Sequences, FiniteSets, Regular

RuleNames(G) == {G.rules[i][1] : i \in DOMAIN G.rules}
RuleIdx(G, name) == CHOOSE i \in DOMAIN G.rules : G.rules[i][1] = name
Body(G, name) == G.rules[RuleIdx(G, name)][3]
PublicIdx(G) == {i \in DOMAIN G.rules : G.rules[i][2] = 1}
NoPublic(G) == PublicIdx(G) = {}
\* the public rule (the generator emits at most one; the first one otherwise)
TopIdx(G) == CHOOSE i \in PublicIdx(G) : \A j \in PublicIdx(G) : i <= j
Top(G) == G.rules[TopIdx(G)][1]

(***************************************************************************)
(* Denotation: the set of token sequences of length <= k.                  *)
(***************************************************************************)
Cat(A, B, k) == UNION {{a \o b : b \in {y \in B : Len(a) + Len(y) <= k}} : a \in A}

RECURSIVE StarOf(_, _, _)
StarOf(D, S, k) == LET T == S \cup Cat(D, S, k) IN IF T = S THEN S ELSE StarOf(D, T, k)
Star(D, k) == StarOf(D \ {<<>>}, {<<>>}, k)

RECURSIVE DenAlts(_, _, _), DenSeq(_, _, _, _), DenItem(_, _, _)
DenItem(a, env, k) ==
    CASE a[1] \in {"t", "q"} -> IF k >= 1 THEN {<<a[2]>>} ELSE {}
      [] a[1] = "r" -> IF a[2] \in DOMAIN env THEN env[a[2]] ELSE {}
      [] a[1] = "n" -> {<<>>}
      [] a[1] = "v" -> {}
      [] a[1] = "g" -> DenAlts(a[2], env, k)
      [] a[1] = "o" -> {<<>>} \cup DenAlts(a[2], env, k)
      [] a[1] = "k" -> Star(DenItem(a[2], env, k), k)
      [] a[1] = "p" -> LET D == DenItem(a[2], env, k) IN Cat(D, Star(D, k), k)
      [] a[1] = "x" -> DenItem(a[2], env, k)
DenSeq(items, i, env, k) ==
    IF i > Len(items) THEN {<<>>}
    ELSE Cat(DenItem(items[i], env, k), DenSeq(items, i + 1, env, k), k)
DenAlts(alts, env, k) == UNION {DenSeq(alts[i][2], 1, env, k) : i \in DOMAIN alts}

\* least fixed point over the rule set, from below (monotone on a finite lattice)
RECURSIVE Lfp(_, _, _)
Lfp(G, env, k) ==
    LET nx == [n \in RuleNames(G) |-> DenAlts(Body(G, n), env, k)]
    IN IF nx = env THEN env ELSE Lfp(G, nx, k)
DenEnv(G, k) == Lfp(G, [n \in RuleNames(G) |-> {}], k)
Den(G, k) == DenEnv(G, k)[Top(G)]

(***************************************************************************)
(* Does the rule speak any sentence at all (of whatever length)?           *)
(***************************************************************************)
RECURSIVE NeAlts(_, _), NeItem(_, _)
NeItem(a, env) ==
    CASE a[1] \in {"t", "q", "n", "o", "k"} -> TRUE
      [] a[1] = "r" -> a[2] \in DOMAIN env /\ env[a[2]]
      [] a[1] = "v" -> FALSE
      [] a[1] = "g" -> NeAlts(a[2], env)
      [] a[1] \in {"p", "x"} -> NeItem(a[2], env)
NeAlts(alts, env) == \E i \in DOMAIN alts : \A j \in DOMAIN alts[i][2] : NeItem(alts[i][2][j], env)
RECURSIVE NeLfp(_, _)
NeLfp(G, env) ==
    LET nx == [n \in RuleNames(G) |-> NeAlts(Body(G, n), env)]
    IN IF nx = env THEN env ELSE NeLfp(G, nx)
EmptyLanguage(G) == ~NeLfp(G, [n \in RuleNames(G) |-> FALSE])[Top(G)]

(***************************************************************************)
(* What a finite-state compiler cannot represent.  The expansion of the    *)
(* public rule is walked with the stack of rules being expanded; nt is the *)
(* number of outermost stack entries for which the current position is NOT *)
(* a tail position (a position is a tail position of a rule when nothing   *)
(* can follow it inside that rule: last item of its sequence at every      *)
(* level, and not under * or +).  Issues found:                            *)
(*   "undef"    a reference to a rule that is not defined                  *)
(*   "nontail"  a recursive reference that is not a tail position of the   *)
(*              rule it re-enters (left or embedded recursion)             *)
(*   "headrec"  a recursive reference in head position of the rule it      *)
(*              re-enters (first item of its sequence at every level; nh   *)
(*              counts the stack entries for which the position is not):   *)
(*              left recursion; together with a tail position it is the    *)
(*              unit cycle A = ... | A, harmless for the language          *)
(*   "unitrec"  an alternative that is nothing but a recursive reference:  *)
(*              it may contribute no arc of its own                        *)
(*   "void"     <VOID> occurs                                              *)
(***************************************************************************)
RECURSIVE IssAlts(_, _, _, _, _), IssItem(_, _, _, _, _, _)
IssAlts(G, alts, stack, nt, nh) ==
    UNION {UNION {IssItem(G, alts[i][2][j], stack,
                          IF j = Len(alts[i][2]) THEN nt ELSE Len(stack),
                          IF j = 1 THEN nh ELSE Len(stack),
                          Len(alts[i][2]) = 1) : j \in DOMAIN alts[i][2]} : i \in DOMAIN alts}
IssItem(G, a, stack, nt, nh, single) ==
    CASE a[1] \in {"t", "q", "n"} -> {}
      [] a[1] = "v" -> {"void"}
      [] a[1] = "r" ->
            IF a[2] \notin RuleNames(G) THEN {"undef"}
            ELSE IF \E i \in DOMAIN stack : stack[i] = a[2]
                 THEN LET p == CHOOSE i \in DOMAIN stack : stack[i] = a[2]
                      IN (IF p > nt THEN {} ELSE {"nontail"})
                         \cup (IF p > nh THEN {"headrec"} ELSE {})
                         \cup (IF single THEN {"unitrec"} ELSE {})
                 ELSE IssAlts(G, Body(G, a[2]), Append(stack, a[2]), nt, nh)
      [] a[1] \in {"g", "o"} -> IssAlts(G, a[2], stack, nt, nh)
      [] a[1] \in {"k", "p"} -> IssItem(G, a[2], stack, Len(stack), nh, FALSE)
      [] a[1] = "x" -> IssItem(G, a[2], stack, nt, nh, single)
Issues(G) == IssAlts(G, Body(G, Top(G)), <<Top(G)>>, 0, 0)

UndefinedRule(G) == "undef" \in Issues(G)
Representable(G) == "nontail" \notin Issues(G)

(***************************************************************************)
(* THE PROPERTY.  A compilation either refuses or yields a finite-state    *)
(* grammar [n, start, final] with arc set A (<<from, to, word, ...>>).     *)
(*  - refusing is right only for a grammar that cannot be represented      *)
(*    (no public rule, undefined rule, non-tail recursion, left recursion  *)
(*    even in the degenerate form A = ... | A); a rule that speaks no      *)
(*    sentence at all (everything <VOID>) may be refused or compiled to a  *)
(*    grammar with the empty language, either is accepted;                 *)
(*  - a grammar without public rule or with an undefined rule must be      *)
(*    refused;                                                             *)
(*  - whatever is not refused must speak exactly the sentences of the      *)
(*    rule (a non-tail-recursive grammar that the compiler nevertheless    *)
(*    gets right is not held against it).                                  *)
(***************************************************************************)
MustRefuse(G) == NoPublic(G) \/ UndefinedRule(G)
MayRefuse(G) == MustRefuse(G) \/ ~Representable(G) \/ "headrec" \in Issues(G) \/ EmptyLanguage(G)

WellFormedFsg(F, A) ==
    /\ F.n >= 1 /\ F.start \in 0..(F.n - 1) /\ F.final \in 0..(F.n - 1)
    /\ \A a \in A : a[1] \in 0..(F.n - 1) /\ a[2] \in 0..(F.n - 1)

CompiledOK(G, k, refused, F, A) ==
    IF refused THEN MayRefuse(G)
    ELSE /\ ~MustRefuse(G)
         /\ WellFormedFsg(F, A)
         /\ Lang(F, A, k) = Den(G, k)

(***************************************************************************)
(* Weights.  In the grammar as generated (before null-transition closure)  *)
(* the arcs leaving a state are the alternatives of one choice point, or a *)
(* single continuation of weight 1; so the linear weights (in millionths)  *)
(* leaving every state that has arcs must add up to 1.  tol is the         *)
(* rounding allowance (see JsgfTrace).  When an alternative contributes no *)
(* arc (<VOID>, A = ... | A) the sum may fall short, never exceed.         *)
(***************************************************************************)
RECURSIVE SumOut(_, _, _)
SumOut(arcs, s, i) ==    \* arcs: sequence of <<from, millionths>>
    IF i > Len(arcs) THEN 0
    ELSE (IF arcs[i][1] = s THEN arcs[i][2] ELSE 0) + SumOut(arcs, s, i + 1)
NOut(arcs, s) == Cardinality({i \in DOMAIN arcs : arcs[i][1] = s})

NormExact(G) == ~NoPublic(G) /\ Issues(G) \cap {"void", "unitrec", "undef", "nontail"} = {}

NormalisedOK(G, n, arcs, tolbase) ==
    \A s \in 0..(n - 1) :
        LET c == NOut(arcs, s)
            sum == SumOut(arcs, s, 1)
            tol == tolbase + c
        IN c > 0 => /\ sum <= 1000000 + tol
                    /\ NormExact(G) => sum >= 1000000 - tol

(***************************************************************************)
(* "Normalised" also means that alternative i gets  w_i / (w_1+...+w_n).   *)
(* That can be told from outside for a list of alternatives (a rule body   *)
(* or a parenthesised group; not [ ], whose empty alternative takes a      *)
(* share that JSGF does not define) in which every alternative starts with *)
(* a token that occurs nowhere else in the grammar: every arc that carries *)
(* that token must then have exactly that probability.                     *)
(***************************************************************************)
RECURSIVE StripTags(_)
StripTags(it) == IF it[1] = "x" THEN StripTags(it[2]) ELSE it

RECURSIVE TokAtAlts(_, _), TokAtItem(_, _)
TokAtItem(it, path) ==
    CASE it[1] \in {"t", "q"} -> {<<path, it[2]>>}
      [] it[1] \in {"g", "o"} -> TokAtAlts(it[2], path)
      [] it[1] \in {"k", "p", "x"} -> TokAtItem(it[2], Append(path, 0))
      [] OTHER -> {}
TokAtAlts(alts, path) ==
    UNION {UNION {TokAtItem(alts[i][2][j], path \o <<i, j>>) : j \in DOMAIN alts[i][2]} : i \in DOMAIN alts}
TokenPlaces(G) == UNION {TokAtAlts(G.rules[r][3], <<r>>) : r \in DOMAIN G.rules}
UniqueToken(G, w) == Cardinality({p \in TokenPlaces(G) : p[2] = w}) = 1

RECURSIVE SumW(_, _)
SumW(alts, i) == IF i > Len(alts) THEN 0 ELSE alts[i][1] + SumW(alts, i + 1)

\* <<token, weight, sum of the weights of its list>>
RECURSIVE ShareAlts(_, _), ShareItem(_)
ShareItem(it) ==
    CASE it[1] = "g" -> ShareAlts(it[2], TRUE)
      [] it[1] = "o" -> ShareAlts(it[2], FALSE)
      [] it[1] \in {"k", "p", "x"} -> ShareItem(it[2])
      [] OTHER -> {}
ShareAlts(alts, here) ==
    (IF here /\ \A i \in DOMAIN alts : StripTags(alts[i][2][1])[1] \in {"t", "q"}
     THEN {<<StripTags(alts[i][2][1])[2], alts[i][1], SumW(alts, 1)>> : i \in DOMAIN alts} ELSE {})
    \cup UNION {UNION {ShareItem(alts[i][2][j]) : j \in DOMAIN alts[i][2]} : i \in DOMAIN alts}
Shares(G) == {e \in UNION {ShareAlts(G.rules[r][3], TRUE) : r \in DOMAIN G.rules} : UniqueToken(G, e[1])}

\* arcs: sequence of <<from, millionths, word>>
ProportionalOK(G, arcs, tolbase) ==
    NormExact(G) =>
        \A e \in Shares(G) : \A i \in DOMAIN arcs :
            arcs[i][3] = e[1] =>
                LET d == arcs[i][2] * e[3] - 1000000 * e[2]
                IN d <= tolbase * e[3] /\ d >= -(tolbase * e[3])
=============================================================================
