SPECIFICATION Spec
CONSTANTS
  FixTop = TRUE
  FixVoid = TRUE
  FixTail = TRUE
INVARIANTS InvFixed
CHECK_DEADLOCK FALSE
