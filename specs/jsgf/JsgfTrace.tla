----------------------------- MODULE JsgfTrace -----------------------------
(***************************************************************************)
(* Layer C (code -> spec) for C05: validates compilations performed by the *)
(* REAL jsgf.c / jsgf_parser / jsgf_scanner / fsg_model.c, recorded by     *)
(* harness/jsgf/jsgf_drv.c, against JsgfSem.                               *)
(*                                                                         *)
(*  Header  id, k, g.ast (the grammar as data, see JsgfSem), g.alias       *)
(*          (<<spelling the library may report, word it stands for>>: a    *)
(*          quoted token is reported with its quotes by the library),      *)
(*          g.shape (the text has no grouping beyond that of g.ast: the    *)
(*          per-alternative weight check and the shape diagnostic apply)   *)
(*  Fsg     one compilation through one public route: refused, or the      *)
(*          states/start/final/arcs read back through fsg_model_arcs       *)
(*  Norm    the arcs of the uncompacted grammar (jsgf_build_fsg_raw) as    *)
(*          <<from state, linear weight in millionths (logmath_exp), word>>*)
(*                                                                         *)
(* Both sides of  Lang(fsg, k) = Den(ast, k)  are computed here, with the  *)
(* operators of Regular and JsgfSem; nothing is taken from the harness but *)
(* the grammar's AST and the dumped automaton.                             *)
(*                                                                         *)
(* Executions are independent of each other, so every Header line is an    *)
(* initial state and the events behind it are consumed one per step: TLC's *)
(* workers validate different executions in parallel.  Every line of the   *)
(* file is exactly one state (the driver checks that the number of         *)
(* distinct states equals the number of lines).  An event the property     *)
(* does not allow prints <<"BAD", line>> and validation goes on, because   *)
(* the driver wants all the rejected executions of a run, not the first.   *)
(*                                                                         *)
(* Rounding allowance of the weight sum: logmath (base 1.0001) stores      *)
(* log-probabilities as integers; whether it rounds toward zero (as it     *)
(* used to) or down (floor), every weight comes back off by a factor       *)
(* within (1/1.0001, 1.0001), i.e. by less than 1e-4 of itself in either   *)
(* direction; the weights of one choice point add up to 1, so their sum is *)
(* off by < 100 millionths either way; float32 arithmetic on the weights   *)
(* adds < 1, the harness rounds each arc to the nearest millionth (0.5 per *)
(* arc).  The allowance is symmetric: TolBase = 110 (+ 1 per arc).         *)
(***************************************************************************)
EXTENDS Naturals, Integers, Sequences, FiniteSets, TLC, Json, IOUtils, JsgfSem

AsIs == INSTANCE JsgfCompileImpl WITH FixTop <- FALSE, FixVoid <- FALSE, FixTail <- FALSE
Fixed == INSTANCE JsgfCompileImpl WITH FixTop <- TRUE, FixVoid <- TRUE, FixTail <- TRUE

JTrace == ndJsonDeserialize(IOEnv.TRACE)
TolBase == 110

VARIABLES l, hdr

Canon(alias, w) == IF \E i \in DOMAIN alias : alias[i][1] = w
                   THEN alias[CHOOSE i \in DOMAIN alias : alias[i][1] = w][2]
                   ELSE w
ArcSet(alias, arcs) == {<<arcs[i][1], arcs[i][2], Canon(alias, arcs[i][3]), arcs[i][4]>> : i \in DOMAIN arcs}

EventOK(h, ev) ==
    CASE ev.e = "Fsg" ->
            CompiledOK(h.ast, h.k, ev.refused, [n |-> ev.n, start |-> ev.start, final |-> ev.final],
                       ArcSet(h.alias, ev.arcs))
      \* a configured start rule that no grammar defines: refused, never replaced by another rule
      [] ev.e = "TopRule" -> ev.refused
      [] ev.e = "Norm" ->
            /\ NormalisedOK(h.ast, ev.n, ev.arcs, TolBase)
            /\ h.shape =>    \* told from the token's own arc: only when the text puts no group around it
               ProportionalOK(h.ast, [i \in DOMAIN ev.arcs |->
                                         <<ev.arcs[i][1], ev.arcs[i][2], Canon(h.alias, ev.arcs[i][3])>>], TolBase)

(***************************************************************************)
(* Diagnostic only (never a violation): does the raw grammar of the real   *)
(* code have exactly the states, arcs and weights that the transcription   *)
(* JsgfCompileImpl predicts - as the code is today (AsIs) or with the      *)
(* proposed repairs (Fixed)?  This is what shows that Layer B describes    *)
(* this code and not some other compiler.  A raw grammar that is neither   *)
(* prints <<"SHAPE", line>>.                                               *)
(***************************************************************************)
SameShape(h, ev, C) ==
    /\ ev.refused = C.refused
    /\ ~ev.refused =>
         /\ ev.n = C.n /\ ev.start = C.start /\ ev.final = C.final
         /\ {<<a[1], a[2], a[3]>> : a \in ArcSet(h.alias, ev.arcs)} = {<<a[1], a[2], a[3]>> : a \in AsIs!RawArcs(C)}
         /\ \A i \in DOMAIN ev.arcs :
               \E j \in DOMAIN C.links :
                  /\ C.links[j][1] = ev.arcs[i][1] /\ C.links[j][2] = ev.arcs[i][2]
                  /\ C.links[j][3] = Canon(h.alias, ev.arcs[i][3])
                  /\ LET d == ev.arcs[i][5] * C.links[j][5] - 1000000 * C.links[j][4]
                     IN d >= -(TolBase * C.links[j][5]) /\ d <= TolBase * C.links[j][5]
ShapeOK(h, ev) ==
    IF ev.e # "Fsg" \/ ev.via # "raw" \/ ~h.shape THEN TRUE
    ELSE SameShape(h, ev, AsIs!Compile(h.ast)) \/ SameShape(h, ev, Fixed!Compile(h.ast))

TInit == /\ l \in {i \in DOMAIN JTrace : JTrace[i].e = "Header"}
         /\ hdr = [k |-> JTrace[l].k, ast |-> JTrace[l].g.ast, alias |-> JTrace[l].g.alias,
                   shape |-> JTrace[l].g.shape]

TNext == /\ l < Len(JTrace)
         /\ JTrace[l + 1].e # "Header"
         /\ IF EventOK(hdr, JTrace[l + 1]) THEN TRUE ELSE PrintT(<<"BAD", l + 1>>)
         /\ IF ShapeOK(hdr, JTrace[l + 1]) THEN TRUE ELSE PrintT(<<"SHAPE", l + 1>>)
         /\ l' = l + 1
         /\ UNCHANGED hdr

TSpec == TInit /\ [][TNext]_<<l, hdr>>
=============================================================================
