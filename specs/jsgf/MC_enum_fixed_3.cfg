SPECIFICATION Spec
CONSTANTS
  FixTop = TRUE
  FixVoid = TRUE
  FixTail = TRUE
  Size = 3
INVARIANTS InvFixed
CHECK_DEADLOCK FALSE
