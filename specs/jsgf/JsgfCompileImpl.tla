-------------------------- MODULE JsgfCompileImpl --------------------------
(***************************************************************************)
(* Layer B for C05: the mechanism of the JSGF compiler transcribed.        *)
(*                                                                         *)
(*  1. Flatten: what the parser actions of jsgf_parser.y build while       *)
(*     reading the text (jsgf_define_rule, jsgf_optional_new,              *)
(*     jsgf_kleene_new): every ( ), [ ], * and + becomes an internal rule; *)
(*     a rule is a chain of right-hand sides in REVERSE textual order      *)
(*     (alternate_list '|' rule_expansion makes the new alternative the    *)
(*     head), an optional puts a <NULL> alternative in front of the chain, *)
(*     x* is  G = <NULL> | x G  and x+ is  G = x | x G.                    *)
(*  2. Expand: jsgf.c expand_rule / expand_rhs: fresh entry and exit state *)
(*     per rule instance, one link per atom, weight of the first atom of   *)
(*     each alternative divided by their sum, rule stack for recursion     *)
(*     detection, right-recursion link back to the entry of the rule       *)
(*     instance on the stack, -1 for <VOID>, undefined rules and           *)
(*     recursion that is not at the end of its right-hand side.            *)
(*  3. jsgf_build_fsg_internal: start = entry, final = exit of the top     *)
(*     rule, links -> word / null arcs (fsg_model_null_trans_add drops     *)
(*     null self-loops), then null-transition closure.                     *)
(*                                                                         *)
(* The code as it is today ignores the value returned by the top-level     *)
(* expand_rule, lets a <VOID> alternative abort the whole expansion and    *)
(* tests "last atom of the innermost right-hand side" instead of "tail     *)
(* position".  Three switches select the repaired behaviour, so that TLC   *)
(* can show (a) the mechanism as it is satisfies the property outside      *)
(* those defect classes and (b) the repaired mechanism satisfies it        *)
(* everywhere:                                                             *)
(*   FixTop   the top-level failure is reported (compilation refused)      *)
(*   FixVoid  <VOID> continues the right-hand side from a fresh state that *)
(*            nothing leads to (the alternative becomes unspeakable, the   *)
(*            others are untouched, later errors are still found)          *)
(*   FixTail  a recursive reference is accepted only if every rule between *)
(*            it and the rule it re-enters was entered from the last atom  *)
(*            of its parent's right-hand side                              *)
(***************************************************************************)
EXTENDS Naturals, Integers, Sequences, FiniteSets, JsgfSem

CONSTANTS FixTop, FixVoid, FixTail

(***************************************************************************)
(* 1. Flatten.  Rules are numbered: 1..N the named rules in textual order, *)
(* N+1.. the internal ones in the order the parser defines them.  An atom  *)
(* is <<kind, value, weight>>: "t" word | "r" rule number (0 = no such     *)
(* rule) | "n" | "v".  T[id] is the chain of right-hand sides of rule id   *)
(* in the order expand_rule walks it.                                      *)
(***************************************************************************)
NullAtom == <<"n", 0, 1>>
SetWeight(s, w) == [s EXCEPT ![1] = <<s[1][1], s[1][2], w>>]

RECURSIVE FlatItem(_, _, _), FlatSeq(_, _, _, _, _), FlatAltsFrom(_, _, _, _, _)
FlatAlts(G, alts, T) == FlatAltsFrom(G, alts, 1, T, <<>>)
FlatItem(G, it, T) ==
    CASE it[1] \in {"t", "q"} -> [a |-> <<"t", it[2], 1>>, T |-> T]
      [] it[1] = "r" -> [a |-> <<"r", IF it[2] \in RuleNames(G) THEN RuleIdx(G, it[2]) ELSE 0, 1>>, T |-> T]
      [] it[1] = "n" -> [a |-> NullAtom, T |-> T]
      [] it[1] = "v" -> [a |-> <<"v", 0, 1>>, T |-> T]
      [] it[1] = "g" ->                                  \* rule_group: jsgf_define_rule(NULL, alts)
            LET f == FlatAlts(G, it[2], T)
            IN [a |-> <<"r", Len(f.T) + 1, 1>>, T |-> Append(f.T, f.alts)]
      [] it[1] = "o" ->                                  \* jsgf_optional_new: <NULL> first, then the chain
            LET f == FlatAlts(G, it[2], T)
            IN [a |-> <<"r", Len(f.T) + 1, 1>>, T |-> Append(f.T, <<<<NullAtom>>>> \o f.alts)]
      [] it[1] \in {"k", "p"} ->                         \* jsgf_kleene_new
            LET f == FlatItem(G, it[2], T)
                id == Len(f.T) + 1
                first == IF it[1] = "k" THEN <<NullAtom>> ELSE <<<<f.a[1], f.a[2], 1>>>>
            IN [a |-> <<"r", id, 1>>, T |-> Append(f.T, <<first, <<f.a, <<"r", id, 1>>>>>>)]
      [] it[1] = "x" -> FlatItem(G, it[2], T)             \* tags are kept on the atom and never read
FlatSeq(G, items, i, T, acc) ==
    IF i > Len(items) THEN [s |-> acc, T |-> T]
    ELSE LET f == FlatItem(G, items[i], T) IN FlatSeq(G, items, i + 1, f.T, Append(acc, f.a))
FlatAltsFrom(G, alts, i, T, acc) ==
    IF i > Len(alts) THEN [alts |-> acc, T |-> T]
    ELSE LET f == FlatSeq(G, alts[i][2], 1, T, <<>>)
         IN FlatAltsFrom(G, alts, i + 1, f.T, <<SetWeight(f.s, alts[i][1])>> \o acc)

RECURSIVE FlatRules(_, _, _)
FlatRules(G, i, T) ==
    IF i > Len(G.rules) THEN T
    ELSE LET f == FlatAlts(G, G.rules[i][3], T) IN FlatRules(G, i + 1, [f.T EXCEPT ![i] = f.alts])
Flatten(G) == FlatRules(G, 1, [i \in 1..Len(G.rules) |-> <<>>])

(***************************************************************************)
(* 2. Expand.  S = [n: next free state, links: sequence in the order of    *)
(* the jsgf_add_link calls, stack: newest first, ent/ex: entry/exit of the *)
(* current instance of each rule].  A link is                              *)
(* <<from, to, word ("" = null), num, den>> with weight num/den.           *)
(* Return codes as in the C code: >= 0 last node, -1 failure,              *)
(* -2 RECURSION.                                                           *)
(***************************************************************************)
RECURSIVE SumFirst(_, _)
SumFirst(alts, i) == IF i > Len(alts) THEN 0 ELSE alts[i][1][3] + SumFirst(alts, i + 1)

AddLink(S, lk) == [S EXCEPT !.links = Append(@, lk)]
OnStack(S, id) == \E i \in DOMAIN S.stack : S.stack[i].id = id
\* every rule pushed after (= found before) id was entered from a tail position
TailChain(S, id) ==
    LET p == CHOOSE i \in DOMAIN S.stack : S.stack[i].id = id
    IN \A i \in 1..(p - 1) : S.stack[i].tail

RECURSIVE ExpRule(_, _, _, _), ExpAlts(_, _, _, _, _), ExpRhs(_, _, _, _, _, _, _)
ExpRule(T, id, tl, S) ==
    LET S1 == [S EXCEPT !.stack = <<[id |-> id, tail |-> tl]>> \o @,
                        !.ent[id] = S.n, !.ex[id] = S.n + 1, !.n = S.n + 2]
    IN ExpAlts(T, id, SumFirst(T[id], 1), 1, S1)
ExpAlts(T, id, norm, i, S) ==
    IF i > Len(T[id])
    THEN [ret |-> S.ex[id], S |-> [S EXCEPT !.stack = Tail(@)]]     \* pop
    ELSE LET r == ExpRhs(T, id, T[id][i], norm, 1, S.ent[id], S)
         IN CASE r.ret = -1 -> [ret |-> -1, S |-> r.S]               \* returns without popping
              [] r.ret = -2 -> ExpAlts(T, id, norm, i + 1, r.S)
              [] OTHER -> ExpAlts(T, id, norm, i + 1, AddLink(r.S, <<r.ret, r.S.ex[id], "", 1, 1>>))
ExpRhs(T, id, alt, norm, j, last, S) ==
    IF j > Len(alt) THEN [ret |-> last, S |-> S]
    ELSE LET a == alt[j]
             den == IF j = 1 THEN norm ELSE 1
         IN CASE a[1] = "n" ->
                   ExpRhs(T, id, alt, norm, j + 1, S.n,
                          AddLink([S EXCEPT !.n = @ + 1], <<last, S.n, "", a[3], den>>))
              [] a[1] = "t" ->
                   ExpRhs(T, id, alt, norm, j + 1, S.n,
                          AddLink([S EXCEPT !.n = @ + 1], <<last, S.n, a[2], a[3], den>>))
              [] a[1] = "v" ->
                   IF FixVoid THEN ExpRhs(T, id, alt, norm, j + 1, S.n, [S EXCEPT !.n = @ + 1])
                   ELSE [ret |-> -1, S |-> S]
              [] a[1] = "r" ->
                   IF a[2] = 0 THEN [ret |-> -1, S |-> S]                      \* undefined rule
                   ELSE IF OnStack(S, a[2])
                   THEN IF j # Len(alt) \/ (FixTail /\ ~TailChain(S, a[2]))
                        THEN [ret |-> -1, S |-> S]                             \* "only right recursion"
                        ELSE [ret |-> -2, S |-> AddLink(S, <<last, S.ent[a[2]], "", a[3], den>>)]
                   ELSE LET r == ExpRule(T, a[2], j = Len(alt), S)
                        IN IF r.ret = -1 THEN r
                           ELSE ExpRhs(T, id, alt, norm, j + 1, r.S.ex[a[2]],
                                       AddLink(r.S, <<last, r.S.ent[a[2]], "", a[3], den>>))

(***************************************************************************)
(* 3. jsgf_build_fsg_raw / jsgf_build_fsg.                                 *)
(***************************************************************************)
Refused == [refused |-> TRUE, n |-> 0, start |-> 0, final |-> 0, links |-> <<>>, ret |-> -1]

Compile(G) ==
    IF NoPublic(G) THEN Refused          \* jsgf_get_public_rule returns NULL, the callers give up
    ELSE LET T == Flatten(G)
             top == TopIdx(G)
             S0 == [n |-> 0, links |-> <<>>, stack |-> <<>>,
                    ent |-> [i \in DOMAIN T |-> 0], ex |-> [i \in DOMAIN T |-> 0]]
             r == ExpRule(T, top, TRUE, S0)
         IN IF FixTop /\ r.ret = -1 THEN Refused
            ELSE [refused |-> FALSE, n |-> r.S.n, start |-> r.S.ent[top], final |-> r.S.ex[top],
                  links |-> r.S.links, ret |-> r.ret]

\* links -> arcs: a null link from a state to itself is dropped, equal arcs coincide
RawArcs(C) == {<<C.links[i][1], C.links[i][2], C.links[i][3], 0>> :
                 i \in {j \in DOMAIN C.links : ~(C.links[j][3] = "" /\ C.links[j][1] = C.links[j][2])}}
\* fsg_model_null_trans_closure, as far as the language is concerned
ClosedArcs(C) ==
    LET A == RawArcs(C)
    IN A \cup UNION {{<<s, t, "", 0>> : t \in EpsClose(A, {s}) \ {s}} : s \in 0..(C.n - 1)}
Fsg(C) == [n |-> C.n, start |-> C.start, final |-> C.final]

(***************************************************************************)
(* What TLC checks for every grammar of a family.                          *)
(***************************************************************************)
\* the weights on the links leaving one state: same denominator, numerators add up to it
RECURSIVE SumNum(_, _, _)
SumNum(links, s, i) ==
    IF i > Len(links) THEN 0 ELSE (IF links[i][1] = s THEN links[i][4] ELSE 0) + SumNum(links, s, i + 1)
LinksNormalised(C, exact) ==
    \A s \in 0..(C.n - 1) :
        LET out == {i \in DOMAIN C.links : C.links[i][1] = s}
        IN out # {} =>
             /\ \A i, j \in out : C.links[i][5] = C.links[j][5]
             /\ LET d == C.links[CHOOSE i \in out : TRUE][5]
                    sum == SumNum(C.links, s, 1)
                IN IF exact THEN sum = d ELSE sum <= d

\* alternative i of a list gets w_i / sum (see JsgfSem!Shares)
LinksProportional(G, C) ==
    \A e \in Shares(G) : \A i \in DOMAIN C.links :
        C.links[i][3] = e[1] => C.links[i][4] * e[3] = e[2] * C.links[i][5]

DefectClass(G) == ~NoPublic(G) /\ Issues(G) \cap {"void", "undef", "nontail"} # {}

\* the property itself, on the raw and on the closed grammar
ImplOK(G, k) ==
    LET C == Compile(G)
    IN /\ CompiledOK(G, k, C.refused, Fsg(C), RawArcs(C))
       /\ CompiledOK(G, k, C.refused, Fsg(C), ClosedArcs(C))
       /\ ~C.refused => LinksNormalised(C, ~DefectClass(G)) /\ LinksProportional(G, C)

\* the mechanism as it is: correct on every grammar outside the defect classes (and never refuses one)
AsIsOK(G, k) == ~DefectClass(G) => ImplOK(G, k) /\ (Compile(G).refused <=> NoPublic(G))

\* the repaired mechanism: correct everywhere, and it refuses exactly what cannot be represented
FixedOK(G, k) ==
    /\ ImplOK(G, k)
    /\ Compile(G).refused <=> (MustRefuse(G) \/ ~Representable(G))
=============================================================================
