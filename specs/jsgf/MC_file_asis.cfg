SPECIFICATION Spec
CONSTANTS
  FixTop = FALSE
  FixVoid = FALSE
  FixTail = FALSE
INVARIANTS InvAsIs InvTwin
CHECK_DEADLOCK FALSE
