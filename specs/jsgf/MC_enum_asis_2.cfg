SPECIFICATION Spec
CONSTANTS
  FixTop = FALSE
  FixVoid = FALSE
  FixTail = FALSE
  Size = 2
INVARIANTS InvAsIs
CHECK_DEADLOCK FALSE
