---------------------------- MODULE MC_JsgfEnum ----------------------------
(* JsgfCompileImpl checked on a family of one-rule grammars  public <s> = ...  that is       *)
(* enumerated HERE, independently of the check driver's generator: every grammar is an       *)
(* initial state.  Leaves: a token, <NULL>, <VOID>, the recursive reference <s>, (Size >= 2)  *)
(* a reference to an undefined rule; one level of ( ), [ ], *, +; sequences of up to two      *)
(* items; up to two alternatives (weights 1 and 2).  Size 1: 8 020, 2: 21 300, 3: 123 600.    *)
EXTENDS JsgfCompileImpl, TLC
CONSTANT Size
K == 4
Leaves == {<<"t", "a">>, <<"n">>, <<"v">>, <<"r", "s">>} \cup (IF Size >= 2 THEN {<<"r", "u">>} ELSE {})
Unary(S) == {<<"k", x>> : x \in S} \cup {<<"p", x>> : x \in S}
Seq12(S, R) == {<<x>> : x \in S} \cup {<<x, y>> : x \in S, y \in R} \cup {<<y, x>> : x \in S, y \in R}
Alts12(Q, R) == {<<<<1, q>>>> : q \in Q} \cup {<<<<1, q>>, <<2, r>>>> : q \in Q, r \in R}
Alts0 == Alts12(Seq12(Leaves, Leaves), Seq12(Leaves, Leaves))
Items1 == Leaves \cup Unary(Leaves) \cup {<<"g", a>> : a \in Alts0} \cup {<<"o", a>> : a \in Alts0}
Small1 == Leaves \cup Unary(Leaves)
Bodies == IF Size >= 3 THEN Alts12(Seq12(Items1, Leaves), {<<x>> : x \in Leaves})
          ELSE Alts12(Seq12(Items1, Leaves), {}) \cup Alts12(Seq12(Small1, Leaves), {<<x>> : x \in Leaves})
Grammars == {[rules |-> <<<<"s", 1, b>>>>] : b \in Bodies}
VARIABLE g
Init == g \in Grammars
Next == UNCHANGED g
Spec == Init /\ [][Next]_g
InvAsIs == AsIsOK(g, K)
InvFixed == FixedOK(g, K)
=============================================================================
