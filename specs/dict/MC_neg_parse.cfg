SPECIFICATION PSpec
CONSTANTS
  Alphabet <- MCAlphabet
  MaxLen = 4
  Known <- MCKnown
  Deviations <- DevNoEndCheck
CHECK_DEADLOCK FALSE
INVARIANTS ParseAccepts
PROPERTIES Progress
