----------------------------- MODULE DictTrace -----------------------------
(***************************************************************************)
(* Layer C (code -> spec) for C16: validates executions of the real        *)
(* decoder_add_word / decoder_lookup_word / grammar / alignment / decode   *)
(* path, recorded by harness/dict/dict_drv.c, against DictAbs.             *)
(*                                                                         *)
(* The abstract dictionary is a *view*: the Header lists the entries of    *)
(* the loaded dictionary that the pool of spellings can see (every pool    *)
(* spelling that is present, its base word and all entries with that       *)
(* base), the number of entries and the case mode.  Every Add event is     *)
(* explained by DictAbs!Add; after every event each watched spelling must  *)
(* look exactly as the abstract dictionary says (id, pronunciation through *)
(* decoder_lookup_word and through the dict macros, stored spelling, base, *)
(* and the alternate links of the base visiting exactly its alternates).   *)
(* The pronunciation of an Add event is what DictAbs!PhoneTokens makes of  *)
(* the BYTES handed to decoder_add_word; an accepted word must be realised *)
(* by the acoustic models of that pronunciation (DictAbs!Realised).        *)
(* Use events: a grammar/alignment over present words loads, over an       *)
(* absent word does not; a decode reports every word under the spelling of *)
(* its base entry and the segmentation names the word or an alternate;     *)
(* with a twin decoder (dictionary file = loaded file + the added words)   *)
(* the two dictionaries are the same value and the two results are equal.  *)
(* Executions are concatenated; a Header starts a fresh decoder.           *)
(***************************************************************************)
EXTENDS Integers, Sequences, FiniteSets, TLC, Json, IOUtils

JTrace == ndJsonDeserialize(IOEnv.TRACE)

VARIABLES l, dict, alts, h      \* h: line of the Header of the current execution
\* constants/variables of the state-machine half of DictAbs, unused here
NoCase == FALSE
Phones == {}
Spellings == {}
Prons == {}
InitWords == <<>>
last == 0
INSTANCE DictAbs

Ev == JTrace[l]
hdr == JTrace[h]
phs == {hdr.phones[i] : i \in DOMAIN hdr.phones}
nc == hdr.nocase = 1
C(s) == Canon(nc, s)
Rng(t) == {t[i] : i \in DOMAIN t}
\* names the clause that rejected event l (tools/vlib/tracecheck.py picks it up for the violation key)
Clause(name, cond) == IF cond THEN TRUE ELSE PrintT(<<"CLAUSE-FAILED", name, l>>) /\ FALSE

\* phone string (bytes) -> pronunciation (phone names; "?" for a token that names no phone of the model)
NameOf(t) == IF \E i \in DOMAIN hdr.phb : hdr.phb[i] = t
             THEN hdr.phones[CHOOSE i \in DOMAIN hdr.phb : hdr.phb[i] = t] ELSE "?"
PronOf(raw) == LET ts == PhoneTokens(raw) IN [k \in DOMAIN ts |-> NameOf(ts[k])]

\* alts[b] caches AltsOf(dict, b) for every base id b in view (checked against the definition at Check events)
AltsExact(D, a) == \A b \in DOMAIN a : a[b] = AltsOf(D, b)

\* one observation tuple  <<sid, wid, lf, look, pron, spb, base, chain>>  against dictionary D / cache a
ObsOK(D, a, o) ==
    LET c == C(hdr.sp[o[1]]) IN
    IF Has(D, c)
    THEN LET e == D.ent[c] IN
         /\ o[2] = e.id
         /\ o[3] = 1 /\ o[4] = e.pron        \* decoder_lookup_word: that pronunciation, single blanks
         /\ o[5] = e.pron                    \* dict_pron
         /\ o[6] = e.sp                      \* dict_wordstr: identity
         /\ o[7] = e.base
         /\ e.base \in DOMAIN a
         /\ ChainOK(a[e.base], o[8])
    ELSE o[2] = -1 /\ o[3] = 0

AllObsOK(D, a) == /\ Ev.n = D.n
                  /\ \A i \in DOMAIN Ev.obs : ObsOK(D, a, Ev.obs[i])

TInit == /\ l = 1 /\ dict = EmptyDict /\ alts = <<>> /\ h = 1
         /\ TLCSet(1, 0)

THeader ==
    /\ Ev.e = "Header"
    /\ h' = l
    /\ LET E == Rng(Ev.init)
           cn(s) == Canon(Ev.nocase = 1, s)
       IN /\ dict' = [n |-> Ev.n0,
                      ent |-> [c \in {cn(e[2]) : e \in E} |->
                                  LET e == CHOOSE x \in E : cn(x[2]) = c
                                  IN [id |-> e[1], sp |-> e[2], pron |-> e[3], base |-> e[4]]]]
          /\ alts' = [b \in {e[4] : e \in E} |-> {e[1] : e \in {x \in E : x[4] = b /\ x[1] # b}}]

TAdd ==
    /\ Ev.e = "Add"
    /\ LET s == hdr.sp[Ev.s]
           p == PronOf(Ev.raw)
           r == Add(dict, nc, phs, s, p)
           a2 == IF r.ret < 0 THEN alts
                 ELSE IF IsAlt(s)
                      THEN LET b == r.dict.ent[C(s)].base
                           IN IF b \in DOMAIN alts THEN [alts EXCEPT ![b] = @ \cup {r.ret}]
                              ELSE (b :> {r.ret}) @@ alts
                      ELSE (r.ret :> {}) @@ alts
       IN /\ IF r.ret >= 0 THEN Ev.ret = r.ret ELSE Ev.ret < 0    \* new id, or failure reported
          /\ r.ret >= 0 => Clause("realised", Realised(p, Ev.d2p))  \* ... and it is that pronunciation the search will use
          /\ AllObsOK(r.dict, a2)
          /\ dict' = r.dict
          /\ alts' = a2
    /\ UNCHANGED h

TCheck ==
    /\ Ev.e = "Check"
    /\ AllObsOK(dict, alts)
    /\ (Cardinality(DOMAIN dict.ent) <= 40 => AltsExact(dict, alts))
    /\ UNCHANGED <<dict, alts, h>>

\* whole-dictionary digest: the count, every stored spelling maps back to its own id, and the digest of the
\* entries loaded at start (spelling, pronunciation, base) is what it was in the Header
TScan ==
    /\ Ev.e = "Scan"
    /\ Ev.n = dict.n /\ Ev.selfmap = dict.n /\ Ev.presum = hdr.presum
    /\ Clause("all-realised", Ev.d2pbad = 0)   \* every entry, old or new, is realised by its own pronunciation
    /\ UNCHANGED <<dict, alts, h>>

TUse ==
    /\ Ev.e = "Use"
    /\ LET cs == [i \in DOMAIN Ev.words |-> C(hdr.sp[Ev.words[i]])]
           absent == {Ev.words[i] : i \in {j \in DOMAIN Ev.words : ~Has(dict, cs[j])}}
           loaded == Ev.called = 1 /\ Ev.ret = 0
       IN /\ Rng(Ev.absent) = absent
          /\ Ev.kind = "jsgf" => /\ (Ev.called = 1) <=> (absent = {})
                                 /\ Ev.called = 1 => Ev.ret = 0      \* usable immediately in a grammar
          /\ Ev.kind = "align" => /\ Ev.called = 1
                                  /\ (Ev.ret = 0) <=> (absent = {})  \* ... and in an alignment text
          /\ (Ev.twin # <<>> /\ Ev.twin[1] = 1) =>
                \* file + added words = the dictionary reached by adding, hence the same hypothesis, score, segmentation
                /\ Clause("twin-same-dictionary", SameValue(dict, Ev.twin[2], Ev.twin[3]))
                /\ Clause("twin-same-result", SameResult(Ev.twin[4], Ev.twin[5]))
          /\ (loaded /\ Ev.dec >= 1) =>
                /\ Ev.expect = 1 => Ev.hf = 1
                /\ Ev.hf = 1 =>
                      /\ Len(Ev.hyp) = Len(Ev.words)
                      /\ \A i \in DOMAIN Ev.words : Ev.hyp[i] = ReportedAs(dict, cs[i])   \* base spelling
                      /\ Len(Ev.seg) = Len(Ev.words)
                      /\ \A i \in DOMAIN Ev.words :
                            /\ Has(dict, C(Ev.seg[i]))
                            /\ dict.ent[C(Ev.seg[i])].base = dict.ent[cs[i]].base       \* the word or an alternate
    /\ AllObsOK(dict, alts)
    /\ UNCHANGED <<dict, alts, h>>

TNext == /\ l <= Len(JTrace)
         /\ (THeader \/ TAdd \/ TCheck \/ TScan \/ TUse)
         /\ l' = l + 1
         /\ TLCSet(1, l)

TSpec == TInit /\ [][TNext]_<<l, dict, alts, h>>

\* accepted iff every line was consumed; otherwise say where it stopped
Accepted == IF TLCGet(1) = Len(JTrace) THEN TRUE
            ELSE PrintT(<<"REJECTED-AT", TLCGet(1) + 1>>) /\ FALSE
=============================================================================
