SPECIFICATION ASpec
CONSTANTS
  NoCase = TRUE
  Phones <- AbsPhones
  Spellings <- AbsSpellings
  Prons <- AbsProns
  InitWords <- AbsInit
INVARIANT AWellFormed
PROPERTY AStable
CONSTRAINT Bound
CHECK_DEADLOCK FALSE
