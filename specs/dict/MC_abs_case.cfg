SPECIFICATION ASpec
CONSTANTS
  NoCase = FALSE
  Phones <- AbsPhones
  Spellings <- AbsSpellings
  Prons <- AbsProns
  InitWords <- AbsInit
INVARIANT AWellFormed
PROPERTY AStable
CONSTRAINT Bound
CHECK_DEADLOCK FALSE
