SPECIFICATION Spec
CONSTANTS
  NoCase = FALSE
  Phones <- MCPhones
  PhoneLen <- MCPhoneLen
  Spellings <- Sp6
  Prons <- Prons4
  InitWords <- NoInit
  InitCap = 2
  Inc = 2
  MaxWords = 4
  Updates <- OnlyFalse
  WithUse = TRUE
  Deviations <- DevRelink
CHECK_DEADLOCK FALSE
INVARIANTS NoCrash
