----------------------------- MODULE PhoneParse -----------------------------
(***************************************************************************)
(* Layer B for C16, the phone-string tokeniser of decoder_add_word         *)
(* (src/decoder.c:836-865), transcribed iteration by iteration:            *)
(*                                                                         *)
(*     ptr = phonestr; np = 0;                  (c = the byte at ptr)      *)
(*     while (c != 0) {                                                    *)
(*         while (c != 0 && isspace_c(c)) ++ptr;       skip blanks         *)
(*         if (c == 0) break;                          only blanks were left *)
(*         phone = ptr;                                                    *)
(*         while (c != 0 && !isspace_c(c)) ++ptr;      the token           *)
(*         final = (c == 0); c = 0;                    cut the string here *)
(*         pron[np] = bin_mdef_ciphone_id(mdef, phone);                    *)
(*         if (pron[np] == -1) return -1;              "Unknown phone"     *)
(*         ++np; if (final) break; ++ptr;                                  *)
(*     }                                                                   *)
(*     if (np == 0) return -1;                         "Empty pronunciation" *)
(*                                                                         *)
(* It refines Layer A: for EVERY byte string the outcome is the one        *)
(* DictAbs gives for the pronunciation DictAbs!PhoneTokens(raw) - accepted *)
(* with exactly those tokens, or refused because a token names no phone,   *)
(* or because there is no token.  TLC checks this for all strings over     *)
(* Alphabet up to MaxLen bytes (one behaviour per string).                 *)
(*                                                                         *)
(* Deviations = {} is the code; the switch "NoEndCheck" is NOT what the    *)
(* code does - it drops the `if (c == 0) break;' line and is the           *)
(* negative control showing that the invariant notices a tokeniser that    *)
(* treats some layout differently.                                         *)
(***************************************************************************)
EXTENDS Integers, Sequences, FiniteSets, TLC

CONSTANTS Alphabet,     \* bytes the strings are made of (some blank, some not)
          MaxLen,       \* longest string explored
          Known,        \* the phone names of the model, as byte sequences
          Deviations

VARIABLES raw, ptr, pron, status
pvars == <<raw, ptr, pron, status>>

\* the state-machine half of DictAbs is not used here
NoCase == FALSE
Phones == {}
Spellings == {}
Prons == {}
InitWords == <<>>
dict == 0
last == 0
INSTANCE DictAbs

Strings == UNION {[1..n -> Alphabet] : n \in 0..MaxLen}
At(i) == IF i > Len(raw) THEN 0 ELSE raw[i]          \* the terminating NUL
Blank(b) == b # 0 /\ IsWS(b)                         \* isspace_c

RECURSIVE SkipBlank(_), SkipToken(_)
SkipBlank(i) == IF Blank(At(i)) THEN SkipBlank(i + 1) ELSE i
SkipToken(i) == IF At(i) # 0 /\ ~Blank(At(i)) THEN SkipToken(i + 1) ELSE i

PInit == raw \in Strings /\ ptr = 1 /\ pron = <<>> /\ status = "loop"

Finish == IF pron = <<>> THEN status' = "empty" ELSE status' = "ok"

\* one iteration of the outer while loop
Iterate ==
    /\ status = "loop"
    /\ raw' = raw
    /\ IF At(ptr) = 0
       THEN Finish /\ UNCHANGED <<ptr, pron>>                        \* the while condition fails
       ELSE LET b == SkipBlank(ptr) IN
            IF At(b) = 0 /\ "NoEndCheck" \notin Deviations
            THEN Finish /\ ptr' = b /\ UNCHANGED pron                 \* if (c == 0) break;
            ELSE LET e == SkipToken(b)
                     tok == SubSeq(raw, b, e - 1)
                     final == At(e) = 0
                 IN IF tok \notin Known
                    THEN status' = "unknown" /\ ptr' = e /\ pron' = Append(pron, tok)
                    ELSE /\ pron' = Append(pron, tok)
                         /\ IF final THEN status' = "ok" /\ ptr' = e
                            ELSE status' = "loop" /\ ptr' = e + 1

PNext == Iterate
PSpec == PInit /\ [][PNext]_pvars

\* Layer A: what the string means
Outcome(s) == LET ts == PhoneTokens(s) IN
              IF ts = <<>> THEN "empty"
              ELSE IF \E k \in DOMAIN ts : ts[k] \notin Known THEN "unknown" ELSE "ok"

PTypeOK == /\ ptr \in 1..(Len(raw) + 1)
           /\ status \in {"loop", "ok", "empty", "unknown"}
\* when the loop has ended, its verdict and its tokens are Layer A's
ParseRefines == status # "loop" =>
                   /\ status = Outcome(raw)
                   /\ status = "ok" => pron = PhoneTokens(raw)
\* the part of it a caller can see (both refusals return -1): accepted iff Layer A accepts
ParseAccepts == status # "loop" => ((status = "ok") <=> (Outcome(raw) = "ok"))
\* while it runs, what it has collected is a prefix of Layer A's tokens
ParsePrefix == status = "loop" =>
                  LET ts == PhoneTokens(raw) IN
                  /\ Len(pron) <= Len(ts)
                  /\ pron = SubSeq(ts, 1, Len(pron))
\* every string is decided: an iteration that stays in the loop moves ptr forward, and ptr is bounded (PTypeOK)
Progress == [][status' = "loop" => ptr' > ptr]_pvars
=============================================================================
