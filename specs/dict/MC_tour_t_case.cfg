SPECIFICATION Spec
CONSTANTS
  NoCase = FALSE
  Phones <- MCPhones
  PhoneLen <- MCPhoneLen
  Spellings <- Sp11
  Prons <- Prons5
  InitWords <- NoInit
  InitCap = 2
  Inc = 2
  MaxWords = 3
  Updates <- OnlyFalse
  WithUse = FALSE
  Deviations <- NoDev
CHECK_DEADLOCK FALSE
ACTION_CONSTRAINT DumpEdge
VIEW TourView
