SPECIFICATION Spec
CONSTANTS
  NoCase = FALSE
  Phones <- MCPhones
  PhoneLen <- MCPhoneLen
  Spellings <- Sp8
  Prons <- Prons4
  InitWords <- NoInit
  InitCap = 2
  Inc = 2
  MaxWords = 4
  Updates <- BOOLEAN
  WithUse = TRUE
  Deviations <- NoDev
CHECK_DEADLOCK FALSE
INVARIANTS TypeOK WellFormed HtExact ChainExact D2pComplete NoCrash SearchFresh
PROPERTIES Refines Stable
