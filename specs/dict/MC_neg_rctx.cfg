SPECIFICATION Spec
CONSTANTS
  NoCase = FALSE
  Phones <- MCPhones
  PhoneLen <- MCPhoneLen
  Spellings <- Sp3
  Prons <- PronsD
  InitWords <- NoInit
  InitCap = 2
  Inc = 2
  MaxWords = 3
  Updates <- OnlyFalse
  WithUse = FALSE
  Deviations <- DevRctx
CHECK_DEADLOCK FALSE
INVARIANTS TypeOK WellFormed HtExact ChainExact D2pComplete NoCrash SearchFresh
PROPERTIES Refines Stable
