SPECIFICATION Spec
CONSTANTS
  NoCase = FALSE
  Phones <- MCPhones
  PhoneLen <- MCPhoneLen
  Spellings <- Sp8
  Prons <- Prons4
  InitWords <- NoInit
  InitCap = 2
  Inc = 2
  MaxWords = 3
  Updates <- OnlyFalse
  WithUse = FALSE
  Deviations <- NoDev
CHECK_DEADLOCK FALSE
INVARIANTS TypeOK WellFormed HtExact ChainExact D2pComplete NoCrash SearchFresh
PROPERTIES Refines Stable
