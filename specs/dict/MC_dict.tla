------------------------------ MODULE MC_dict ------------------------------
(* Bounded instances of DictImpl.  Spellings are byte sequences:                                   *)
(*   a  a(2)  a(3)  b  b(2)  ""  x(  A      plus, in the larger instances,  a()  (2)  A(2)          *)
(* phones: P (one letter), QQ (two letters) are known, BAD is not.                                 *)
EXTENDS DictImpl, Json
sa == <<97>>
sa2 == <<97, 40, 50, 41>>
sa3 == <<97, 40, 51, 41>>
sb == <<98>>
sb2 == <<98, 40, 50, 41>>
sb3 == <<98, 40, 51, 41>>
se == <<>>
sxp == <<120, 40>>
sA == <<65>>
sA2 == <<65, 40, 50, 41>>
sa0 == <<97, 40, 41>>
sp2 == <<40, 50, 41>>

Sp8 == {sa, sa2, sa3, sb, sb2, se, sxp, sA}
Sp11 == Sp8 \cup {sA2, sa0, sp2}
Sp6 == {sa, sa2, sa3, sb, se, sA}
\* with a dictionary loaded at start: b, b(2) exist; b(3), B... can be added
SpPre == {sb, sb2, sb3, sa, sa2, se, sA}

P1 == <<"P">>
P2 == <<"P", "QQ">>
P3 == <<"QQ", "P", "QQ">>
P11 == <<"P", "P">>
Prons5 == {<<>>, P1, P2, P3, <<"BAD">>}
Prons7 == Prons5 \cup {P11, <<"P", "BAD">>}
Prons4 == {<<>>, P1, P3, <<"BAD">>}
\* for the context tables: every length 1..4, the same final pair (QQ after P) reached by words of 2, 3 and 4 phones
P4 == <<"QQ", "QQ", "P", "QQ">>
P22 == <<"QQ", "P">>
PronsD == {P1, P2, P22, P3, P4, <<"QQ", "BAD">>}
Sp3 == {sa, sa2, sb}
MCPhones == {"P", "QQ"}
MCPhoneLen == ("P" :> 1) @@ ("QQ" :> 2) @@ ("BAD" :> 3)

NoInit == <<>>
PreInit == <<<<sb, P2>>, <<sb2, P1>>>>

AsWritten == {"RelinkFirst", "EmptyWord", "EmptyPron", "PronBuf"}
DevRelink == {"RelinkFirst"}
DevEmptyWord == {"EmptyWord"}
DevEmptyPron == {"EmptyPron"}
DevPronBuf == {"PronBuf"}
NoDev == {}
DevRctx == {"RctxSecond"}      \* negative control (not what the code does)
OnlyFalse == {FALSE}

(* graph export for the edge tours: one line per generated transition *)
\* printed form of the implementation state: tuples only (a function built with @@ prints in construction order
\* until TLC normalises it, so the same state could print differently as source and as target of an edge);
\* the hash table is determined by the live slots (invariant HtExact)
ImplState == <<[i \in 1..max_words |-> word[i - 1]], n_word>>
TourView == <<word, n_word, max_words, ht, ldiph, rdiph, single, srch, crashed>>
DumpEdge == PrintT(<<"EDGE", ToJson([f |-> ToString(ImplState), a |-> last', t |-> ToString(ImplState')])>>)
=============================================================================
