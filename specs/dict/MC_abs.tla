------------------------------- MODULE MC_abs -------------------------------
(* DictAbs on its own: every reachable dictionary is well formed and every step keeps what was there. *)
EXTENDS DictAbs
sa == <<97>>
sa2 == <<97, 40, 50, 41>>
sa3 == <<97, 40, 51, 41>>
sb == <<98>>
sb2 == <<98, 40, 50, 41>>
se == <<>>
sxp == <<120, 40>>
sA == <<65>>
sA2 == <<65, 40, 50, 41>>
sa0 == <<97, 40, 41>>
sp2 == <<40, 50, 41>>
AbsSpellings == {sa, sa2, sa3, sb, sb2, se, sxp, sA, sA2, sa0, sp2}
AbsProns == {<<>>, <<"P">>, <<"P", "QQ">>, <<"QQ", "P", "QQ">>, <<"BAD">>, <<"P", "BAD">>}
AbsPhones == {"P", "QQ"}
AbsInit == <<<<sb, <<"P">>>>, <<sb2, <<"QQ", "P">>>>>>
Bound == dict.n <= 4
=============================================================================
