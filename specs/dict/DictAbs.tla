------------------------------ MODULE DictAbs ------------------------------
(***************************************************************************)
(* Layer A for property C16: the pronunciation dictionary as an append-    *)
(* only table of entries, and what an addition is allowed to do to it.     *)
(* Nothing here knows about slots, reallocation, hash buckets, alternate   *)
(* links, tokeniser loops or how triphone tables are filled.               *)
(*                                                                         *)
(* A spelling is a sequence of bytes, a pronunciation a sequence of phone  *)
(* names.  A dictionary value D is a record                                *)
(*     n    number of entries (the next word id; ids are 0 .. n-1)         *)
(*     ent  canonical spelling -> [id, sp, pron, base]                     *)
(* i.e. the sequence of entries <<spelling, pronunciation, base>> indexed  *)
(* by id, held as a map so that a *view* (only the entries a test can      *)
(* name) is a value of the same type.  `base' is the id of the entry's     *)
(* base word: its own id, or for a spelling of the form  b(...)  the id of *)
(* the entry spelled b.                                                    *)
(*                                                                         *)
(* Add(D, s, p) succeeds iff s # "", p # <<>>, every phone is known, s is  *)
(* not present and, when s = b(...), b is present.  On success exactly one *)
(* entry is appended (id = D.n) with that spelling, pronunciation and      *)
(* base; on failure nothing changes.  No operation ever alters or removes  *)
(* an existing entry.                                                      *)
(***************************************************************************)
EXTENDS Integers, Sequences, FiniteSets, TLC

LPAREN == 40
RPAREN == 41

(* 7-bit ASCII case folding; the case mode is the dictionary's (dict_t.nocase) *)
Fold(b) == IF b >= 97 /\ b <= 122 THEN b - 32 ELSE b
Canon(nocase, s) == IF nocase THEN [i \in DOMAIN s |-> Fold(s[i])] ELSE s

(* s = b(...) : last byte is ')' and there is a '(' that is neither the first byte nor the last one; the *)
(* base spelling is what precedes the LAST such '(' (dict.h: "a trailing (....)").                       *)
IsAlt(s) == /\ Len(s) >= 3
            /\ s[Len(s)] = RPAREN
            /\ \E j \in 2..(Len(s) - 1) : s[j] = LPAREN
ParenPos(s) == CHOOSE j \in 2..(Len(s) - 1) : s[j] = LPAREN /\ \A k \in (j + 1)..(Len(s) - 1) : s[k] # LPAREN
BaseStr(s) == SubSeq(s, 1, ParenPos(s) - 1)

Has(D, c) == c \in DOMAIN D.ent
Entries(D) == {D.ent[c] : c \in DOMAIN D.ent}
EmptyDict == [n |-> 0, ent |-> [c \in {} |-> 0]]

AddOK(D, nocase, phones, s, p) ==
    /\ s # <<>>
    /\ p # <<>>
    /\ \A i \in DOMAIN p : p[i] \in phones
    /\ ~Has(D, Canon(nocase, s))
    /\ IsAlt(s) => Has(D, Canon(nocase, BaseStr(s)))

NewEntry(D, nocase, s, p) ==
    [id |-> D.n, sp |-> s, pron |-> p,
     base |-> IF IsAlt(s) THEN D.ent[Canon(nocase, BaseStr(s))].id ELSE D.n]

Extend(f, c, e) == (c :> e) @@ f      \* c is not in DOMAIN f where this is used

(* the dictionary after the call, and what the call reports: the new id, or -1 *)
Add(D, nocase, phones, s, p) ==
    IF AddOK(D, nocase, phones, s, p)
    THEN [dict |-> [n |-> D.n + 1, ent |-> Extend(D.ent, Canon(nocase, s), NewEntry(D, nocase, s, p))],
          ret |-> D.n]
    ELSE [dict |-> D, ret |-> -1]

(* the alternates of the word with id b: every other entry whose base is b *)
AltsOf(D, b) == {e.id : e \in {x \in Entries(D) : x.base = b /\ x.id # b}}

(* a walk over the alternates of b (however the implementation links them) visits each exactly once *)
ChainOK(alts, chain) ==
    /\ Len(chain) = Cardinality(alts)
    /\ {chain[i] : i \in DOMAIN chain} = alts

(***************************************************************************)
(* What the caller hands over is a phone STRING.  The pronunciation it     *)
(* names is the sequence of its maximal runs of non-blank bytes: leading,  *)
(* trailing and repeated blanks (space, tab, CR, LF) mean nothing, so      *)
(* every layout of the same phones is the same addition.                   *)
(***************************************************************************)
WhiteSpace == {32, 9, 10, 13}
IsWS(b) == b \in WhiteSpace
\* the last byte of the run of non-blank bytes that starts at i
TokenEnd(raw, i) == CHOOSE j \in i..Len(raw) : /\ (j = Len(raw) \/ IsWS(raw[j + 1]))
                                               /\ \A k \in i..j : ~IsWS(raw[k])
\* the runs that start at or after byte i
RECURSIVE TokensFrom(_, _)
TokensFrom(raw, i) == IF i > Len(raw) THEN <<>>
                      ELSE IF IsWS(raw[i]) THEN TokensFrom(raw, i + 1)
                      ELSE LET e == TokenEnd(raw, i) IN <<SubSeq(raw, i, e)>> \o TokensFrom(raw, e + 1)
PhoneTokens(raw) == TokensFrom(raw, 1)

(***************************************************************************)
(* "Usable immediately": a search reads, for the first and for the last    *)
(* phone of a word, one acoustic model (senone sequence) per neighbouring  *)
(* phone.  An entry is REALISED when each of them is the model the model   *)
(* definition assigns to the entry's OWN pronunciation in that context -   *)
(* which is what a word read from the dictionary file gets.  The           *)
(* observation is <<nb, ne, ns, ...>>: the number of neighbouring phones   *)
(* for which the two differ, for the first phone, the last phone, and the  *)
(* only phone of a one-phone word (-1: not applicable to this length).     *)
(***************************************************************************)
Realised(pron, cnt) == IF Len(pron) >= 2 THEN cnt[1] = 0 /\ cnt[2] = 0 ELSE cnt[3] = 0

(***************************************************************************)
(* A dictionary is a VALUE: how it came about - read from a file, or       *)
(* reached by additions - is not part of it, and recognition is a function *)
(* of (dictionary value, grammar, audio).  Two decoders that agree on the  *)
(* three agree on hypothesis, score and segmentation.  `same' = number of  *)
(* entries of D the other dictionary has with equal spelling,              *)
(* pronunciation and base spelling; `nOther' its size.                     *)
(***************************************************************************)
SameValue(D, nOther, same) == nOther = D.n /\ same = D.n
SameResult(r1, r2) == r1 = r2

(* the spelling under which a word is reported in results: the spelling of its base entry *)
EntryById(D, i) == CHOOSE e \in Entries(D) : e.id = i
ReportedAs(D, c) == EntryById(D, D.ent[c].base).sp

(* A total dictionary (not a view) is well formed: ids are 0..n-1 without repeats, every entry is filed  *)
(* under its own canonical spelling, pronunciations are non-empty over the phone set, and the base of an *)
(* entry is the entry spelled BaseStr (itself when the spelling has no trailing parenthesis).            *)
WellFormed(D, nocase, phones) ==
    /\ Cardinality(DOMAIN D.ent) = D.n
    /\ {e.id : e \in Entries(D)} = 0..(D.n - 1)
    /\ \A c \in DOMAIN D.ent :
          LET e == D.ent[c] IN
          /\ c = Canon(nocase, e.sp)
          /\ e.sp # <<>> /\ e.pron # <<>> /\ \A i \in DOMAIN e.pron : e.pron[i] \in phones
          /\ IF IsAlt(e.sp)
             THEN /\ Has(D, Canon(nocase, BaseStr(e.sp)))
                  /\ e.base = D.ent[Canon(nocase, BaseStr(e.sp))].id
                  /\ e.base < e.id
             ELSE e.base = e.id

(***************************************************************************)
(* The same thing as a state machine: the refinement target of DictImpl.   *)
(***************************************************************************)
CONSTANTS NoCase,      \* BOOLEAN: dictionary folds case
          Phones,      \* phone names of the acoustic model
          Spellings,   \* spellings the machine may try to add
          Prons,       \* pronunciations it may try
          InitWords    \* sequence of <<spelling, pronunciation>>: the dictionary loaded at start
VARIABLES dict, last

RECURSIVE Load(_, _)
Load(D, ws) == IF ws = <<>> THEN D ELSE Load(Add(D, NoCase, Phones, ws[1][1], ws[1][2]).dict, Tail(ws))

AInit == dict = Load(EmptyDict, InitWords) /\ last = [op |-> "init", s |-> <<>>, p |-> <<>>, ret |-> 0]

AAdd(s, p) == LET r == Add(dict, NoCase, Phones, s, p)
              IN dict' = r.dict /\ last' = [op |-> "add", s |-> s, p |-> p, ret |-> r.ret]

ANext == \E s \in Spellings, p \in Prons : AAdd(s, p)
ASpec == AInit /\ [][ANext]_<<dict, last>>

(* ANext written so that TLC can *check* a given step with one evaluation of Add (the arguments are read *)
(* off last' instead of being searched for); same set of steps as ANext.                                 *)
AStep == /\ last'.op = "add" /\ last'.s \in Spellings /\ last'.p \in Prons
         /\ LET r == Add(dict, NoCase, Phones, last'.s, last'.p)
            IN dict' = r.dict /\ last'.ret = r.ret
ASpecChk == AInit /\ [][AStep]_<<dict, last>>

(* consequences, checked by TLC on the machine itself (MC_abs.tla) and, through refinement, on DictImpl *)
AWellFormed == WellFormed(dict, NoCase, Phones)
\* every earlier entry keeps id, spelling, pronunciation and base; a failed call changes nothing
AStable == [][/\ \A c \in DOMAIN dict.ent : c \in DOMAIN dict'.ent /\ dict'.ent[c] = dict.ent[c]
              /\ (last'.ret < 0 => dict' = dict)
              /\ (last'.ret >= 0 => /\ dict'.n = dict.n + 1
                                   /\ last'.ret = dict.n
                                   /\ Has(dict', Canon(NoCase, last'.s))
                                   /\ dict'.ent[Canon(NoCase, last'.s)].pron = last'.p
                                   /\ (IsAlt(last'.s) =>
                                         last'.ret \in AltsOf(dict', dict.ent[Canon(NoCase, BaseStr(last'.s))].id)))
            ]_<<dict, last>>
=============================================================================
