------------------------------ MODULE MC_parse ------------------------------
(* PhoneParse for every string of up to 7 bytes over  P Q blank newline ; the model has phones P and QQ, so *)
(* Q, PP, PQ ... are tokens that name no phone.                                                             *)
EXTENDS PhoneParse
MCAlphabet == {80, 81, 32, 10}
MCKnown == {<<80>>, <<81, 81>>}
NoDev == {}
DevNoEndCheck == {"NoEndCheck"}      \* negative control (not what the code does)
=============================================================================
