SPECIFICATION PSpec
CONSTANTS
  Alphabet <- MCAlphabet
  MaxLen = 7
  Known <- MCKnown
  Deviations <- NoDev
CHECK_DEADLOCK FALSE
INVARIANTS PTypeOK ParseRefines ParsePrefix
PROPERTIES Progress
