SPECIFICATION Spec
CONSTANTS
  NoCase = FALSE
  Phones <- MCPhones
  PhoneLen <- MCPhoneLen
  Spellings <- SpPre
  Prons <- Prons4
  InitWords <- PreInit
  InitCap = 3
  Inc = 2
  MaxWords = 5
  Updates <- OnlyFalse
  WithUse = FALSE
  Deviations <- NoDev
CHECK_DEADLOCK FALSE
INVARIANTS TypeOK WellFormed HtExact ChainExact D2pComplete NoCrash SearchFresh
PROPERTIES Refines Stable
