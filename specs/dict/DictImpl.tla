----------------------------- MODULE DictImpl -----------------------------
(***************************************************************************)
(* Layer B for C16: the addition path of the C code transcribed.           *)
(*                                                                         *)
(*   decoder_add_word (decoder.c)   parse the phone string into ids (a     *)
(*        buffer of strlen(phones) BYTES for 2-byte ids), stop at the      *)
(*        first unknown phone; dict_add_word; dict2pid_add_word;           *)
(*        search_module_reinit when a search exists and `update' is set.   *)
(*   dict_add_word (dict.c)         grow the entry array by Inc when full  *)
(*        (realloc: old slots copied, new ones garbage); write the         *)
(*        spelling into slot n_word; strip a trailing "(..)" and look the  *)
(*        base up; link the slot into the base's alternate list; enter     *)
(*        the spelling in the hash table (fails when present); store the   *)
(*        pronunciation; n_word++.                                         *)
(*   dict2pid_add_word (dict2pid.c) fill, if still empty, the word-initial *)
(*        table of (first, second phone), the word-final table of (last,   *)
(*        second-last phone), or the single-phone table of the only phone. *)
(*        A table is filled, for every neighbouring phone c, with the      *)
(*        model-definition triphone  first(c, second)  resp.               *)
(*        last(second-last, c); once filled it is never looked at again,   *)
(*        every later word with the same phone pair reads it.              *)
(*   The phone string is cut into names by the loop transcribed in         *)
(*   PhoneParse.tla (refines DictAbs!PhoneTokens); here a pronunciation is *)
(*   the resulting sequence of names.                                      *)
(*                                                                         *)
(* word[i]  slot i of d->word (0 .. max_words-1), slots >= n_word hold     *)
(*          whatever was written there last (that is the point: a failed   *)
(*          call writes into slot n_word before it decides to fail);       *)
(* ht       the hash table as a map canonical spelling -> id (the table    *)
(*          itself is property C20);                                       *)
(* ldiph, rdiph   the lazily filled context tables, as sets of              *)
(*          <<key, src>>: key = the phone pair that indexes the table      *)
(*          (<<first, second>> resp. <<last, second-last>>), src = the     *)
(*          <<base, neighbour-inside-the-word>> pair whose triphones were   *)
(*          written into it (correct iff src = key);                       *)
(* single   the phones whose single-phone-word table exists;               *)
(* srch     the active search: whether one exists and the dictionary size  *)
(*          it was (re)initialised for.                                    *)
(*                                                                         *)
(* Deviations = {} is the intended design; it refines DictAbs and keeps    *)
(* every invariant below.  The code as written differs in four places,     *)
(* each behind a named switch so that the model documents the defect:      *)
(*   "RelinkFirst"  the base's alternate link is redirected to the new     *)
(*                  slot BEFORE the duplicate test (dict.c:104-119);       *)
(*   "EmptyWord"    dict_word2basestr reads word[len-1] with len = 0;      *)
(*   "EmptyPron"    an empty pronunciation is entered and                  *)
(*                  dict2pid_add_word then reads its first phone;          *)
(*   "PronBuf"      the id buffer has strlen(phones) bytes, too small when *)
(*                  every phone name is one letter (decoder.c:814).        *)
(* One more switch is NOT what the code does; it is a negative control     *)
(* showing that D2pComplete looks at what the tables hold:                 *)
(*   "RctxSecond"   the word-final table is filled with the triphones      *)
(*                  last(SECOND phone, c) instead of last(second-last, c). *)
(***************************************************************************)
EXTENDS Integers, Sequences, FiniteSets, TLC

CONSTANTS NoCase, Phones, Spellings, Prons, InitWords,   \* as in DictAbs
          PhoneLen,     \* [phone name -> number of letters] for every phone in Prons
          InitCap,      \* entries allocated at start (>= Len(InitWords))
          Inc,          \* S3DICT_INC_SZ
          MaxWords,     \* bound of the model: no call once n_word = MaxWords
          Updates,      \* values of the `update' argument explored
          WithUse,      \* BOOLEAN: explore SetGrammar steps
          Deviations

VARIABLES word, n_word, max_words, ht, ldiph, rdiph, single, srch, crashed, last, lastAdd
vars == <<word, n_word, max_words, ht, ldiph, rdiph, single, srch, crashed, last, lastAdd>>

BAD == -1
NIL == <<-1>>      \* a NULL word pointer (no spelling contains the "byte" -1)
Garbage == [word |-> NIL, pron |-> <<>>, alt |-> -2, base |-> -2]

\* the dictionary as Layer A sees it: what the hash table and the slots it points to say
Proj == [n |-> n_word,
         ent |-> [c \in DOMAIN ht |-> [id |-> ht[c], sp |-> word[ht[c]].word, pron |-> word[ht[c]].pron,
                                       base |-> word[ht[c]].base]]]
A == INSTANCE DictAbs WITH dict <- Proj, last <- lastAdd

Canon(s) == A!Canon(NoCase, s)

-----------------------------------------------------------------------------
(* dict_add_word on a dictionary value st = [word, n_word, max_words, ht]; returns st', ret, crash *)
DAW(st, s, p) ==
    LET n    == st.n_word
        grow == n >= st.max_words
        mw   == IF grow THEN st.max_words + Inc ELSE st.max_words
        w0   == IF grow THEN [i \in 0..(mw - 1) |-> IF i < st.max_words THEN st.word[i] ELSE Garbage]
                ELSE st.word
        w1   == [w0 EXCEPT ![n].word = s]                          \* wordp->word = ckd_salloc(word)
        c    == Canon(s)
        dup  == c \in DOMAIN st.ht
        Fail(w) == [st |-> [word |-> [w EXCEPT ![n].word = NIL], n_word |-> n, max_words |-> mw, ht |-> st.ht],
                    ret |-> BAD, crash |-> FALSE]
        Fill(w) == [st |-> [word |-> [w EXCEPT ![n].pron = p], n_word |-> n + 1, max_words |-> mw,
                            ht |-> A!Extend(st.ht, c, n)],
                    ret |-> n, crash |-> FALSE]
    IN
    IF s = <<>>
    THEN IF "EmptyWord" \in Deviations
         THEN [st |-> [word |-> w1, n_word |-> n, max_words |-> mw, ht |-> st.ht], ret |-> BAD, crash |-> TRUE]
         ELSE Fail(w1)
    ELSE IF A!IsAlt(s)
    THEN LET bc == Canon(A!BaseStr(s)) IN
         IF bc \notin DOMAIN st.ht
         THEN Fail(w1)                                              \* "Missing base word"
         ELSE LET b == st.ht[bc]
                  linked == [w1 EXCEPT ![n].base = b, ![n].alt = w1[b].alt, ![b].alt = n]
              IN IF "RelinkFirst" \in Deviations
                 THEN (IF dup THEN Fail(linked) ELSE Fill(linked))  \* as written: link, then hash_table_enter
                 ELSE (IF dup THEN Fail(w1) ELSE Fill(linked))      \* intended: nothing is touched on failure
    ELSE LET plain == [w1 EXCEPT ![n].base = n, ![n].alt = BAD]
         IN IF dup THEN Fail(plain) ELSE Fill(plain)

RECURSIVE LoadAll(_, _)
LoadAll(st, ws) == IF ws = <<>> THEN st ELSE LoadAll(DAW(st, ws[1][1], ws[1][2]).st, Tail(ws))

St0 == LoadAll([word |-> [i \in 0..(InitCap - 1) |-> Garbage], n_word |-> 0, max_words |-> InitCap,
                ht |-> [c \in {} |-> 0]], InitWords)

\* dict2pid_build: the tables needed by the words loaded at start
LPair(p) == <<p[1], p[2]>>
RPair(p) == <<p[Len(p)], p[Len(p) - 1]>>
LoadedProns == {St0.word[i].pron : i \in 0..(St0.n_word - 1)}

HasKey(tab, k) == \E e \in tab : e[1] = k
\* the lazy fill of dict2pid_add_word for pronunciation p (Len(p) >= 2)
LFill(tab, p) == IF HasKey(tab, LPair(p)) THEN tab ELSE tab \cup {<<LPair(p), LPair(p)>>}
RFill(tab, p) == IF HasKey(tab, RPair(p)) THEN tab
                 ELSE tab \cup {<<RPair(p), IF "RctxSecond" \in Deviations THEN <<p[Len(p)], p[2]>> ELSE RPair(p)>>}

Init == /\ word = St0.word /\ n_word = St0.n_word /\ max_words = St0.max_words /\ ht = St0.ht
        /\ ldiph = {<<LPair(p), LPair(p)>> : p \in {q \in LoadedProns : Len(q) >= 2}}     \* dict2pid_build
        /\ rdiph = {<<RPair(p), RPair(p)>> : p \in {q \in LoadedProns : Len(q) >= 2}}
        /\ single = {p[1] : p \in {q \in LoadedProns : Len(q) = 1}}
        /\ srch = [active |-> FALSE, n |-> 0]
        /\ crashed = FALSE
        /\ last = [op |-> "init", s |-> <<>>, p |-> <<>>, u |-> FALSE, ret |-> 0]
        /\ lastAdd = [op |-> "init", s |-> <<>>, p |-> <<>>, ret |-> 0]

-----------------------------------------------------------------------------
RECURSIVE SumLen(_)
SumLen(p) == IF p = <<>> THEN 0 ELSE PhoneLen[p[1]] + SumLen(Tail(p))
StrLen(p) == SumLen(p) + (IF Len(p) > 0 THEN Len(p) - 1 ELSE 0)     \* names joined by single blanks
BadAt(p) == {k \in DOMAIN p : p[k] \notin Phones}
FirstBad(p) == CHOOSE k \in BadAt(p) : \A j \in BadAt(p) : k <= j

Crash(s, p, u) ==
    /\ crashed' = TRUE
    /\ last' = [op |-> "add", s |-> s, p |-> p, u |-> u, ret |-> -99]
    /\ lastAdd' = [op |-> "add", s |-> s, p |-> p, ret |-> -99]
    /\ UNCHANGED <<word, n_word, max_words, ht, ldiph, rdiph, single, srch>>

Report(s, p, u, r) ==
    /\ last' = [op |-> "add", s |-> s, p |-> p, u |-> u, ret |-> r]
    /\ lastAdd' = [op |-> "add", s |-> s, p |-> p, ret |-> r]

\* decoder_add_word(d, s, <names of p joined by blanks>, u)
AddWord(s, p, u) ==
    /\ ~crashed
    /\ n_word < MaxWords
    /\ LET unknown  == BadAt(p) # {}
           nwritten == IF unknown THEN FirstBad(p) ELSE Len(p)     \* pron[k] is stored, then tested
           overflow == "PronBuf" \in Deviations /\ 2 * nwritten > StrLen(p)
       IN
       IF overflow THEN Crash(s, p, u)
       ELSE IF unknown \/ (p = <<>> /\ "EmptyPron" \notin Deviations)
       THEN /\ Report(s, p, u, BAD)
            /\ UNCHANGED <<word, n_word, max_words, ht, ldiph, rdiph, single, srch, crashed>>
       ELSE LET r == DAW([word |-> word, n_word |-> n_word, max_words |-> max_words, ht |-> ht], s, p) IN
            IF r.crash THEN Crash(s, p, u)
            ELSE IF r.ret = BAD
            THEN /\ word' = r.st.word /\ n_word' = r.st.n_word /\ max_words' = r.st.max_words /\ ht' = r.st.ht
                 /\ Report(s, p, u, BAD)
                 /\ UNCHANGED <<ldiph, rdiph, single, srch, crashed>>
            ELSE IF p = <<>> THEN Crash(s, p, u)                   \* dict2pid_add_word: ciphone[0] of NULL
            ELSE /\ word' = r.st.word /\ n_word' = r.st.n_word /\ max_words' = r.st.max_words /\ ht' = r.st.ht
                 /\ ldiph' = IF Len(p) >= 2 THEN LFill(ldiph, p) ELSE ldiph
                 /\ rdiph' = IF Len(p) >= 2 THEN RFill(rdiph, p) ELSE rdiph
                 /\ single' = IF Len(p) = 1 THEN single \cup {p[1]} ELSE single
                 /\ srch' = IF srch.active /\ u THEN [srch EXCEPT !.n = r.st.n_word] ELSE srch
                 /\ Report(s, p, u, r.ret)
                 /\ UNCHANGED crashed

\* the alternates of base b as fsg_search_add_altpron walks them; a link to a non-word is reported, not followed
RECURSIVE Walk(_, _)
Walk(i, fuel) == IF i = BAD \/ fuel = 0 THEN <<>>
                 ELSE IF i \notin 0..(n_word - 1) THEN <<i>>
                 ELSE <<i>> \o Walk(word[i].alt, fuel - 1)
ChainFrom(b) == Walk(word[b].alt, max_words + 1)

\* the tables a search over word i reads exist ...
TablesExist(i) == LET p == word[i].pron IN
                  /\ Len(p) >= 1
                  /\ Len(p) >= 2 => HasKey(ldiph, LPair(p)) /\ HasKey(rdiph, RPair(p))
                  /\ Len(p) = 1 => p[1] \in single
\* ... and hold the triphones of word i's own pronunciation, nothing else (Layer A: DictAbs!Realised)
TablesFor(i) == LET p == word[i].pron IN
                /\ TablesExist(i)
                /\ Len(p) >= 2 => /\ \A e \in ldiph : e[1] = LPair(p) => e[2] = LPair(p)
                                  /\ \A e \in rdiph : e[1] = RPair(p) => e[2] = RPair(p)

\* decoder_set_jsgf_string / decoder_set_align_text naming the present word s: a new search is built over the
\* word and the alternates of it that the links give; building it reads the context tables of each of them.
SetGrammar(s) ==
    /\ WithUse /\ ~crashed
    /\ Canon(s) \in DOMAIN ht
    /\ LET w == ht[Canon(s)]
           ch == ChainFrom(w)
           used == {w} \cup {ch[i] : i \in DOMAIN ch}
       IN /\ crashed' = ~(\A i \in used : i \in 0..(n_word - 1) /\ word[i].word # NIL /\ TablesExist(i))
          /\ srch' = [active |-> TRUE, n |-> n_word]
          /\ last' = [op |-> "use", s |-> s, p |-> <<>>, u |-> FALSE, ret |-> 0]
          /\ UNCHANGED <<word, n_word, max_words, ht, ldiph, rdiph, single, lastAdd>>

Next == \/ \E s \in Spellings, p \in Prons, u \in Updates : AddWord(s, p, u)
        \/ \E s \in Spellings : SetGrammar(s)

Spec == Init /\ [][Next]_vars

-----------------------------------------------------------------------------
Refines == A!ASpecChk
Stable == A!AStable

Live == 0..(n_word - 1)
TypeOK == /\ n_word \in 0..MaxWords /\ n_word <= max_words
          /\ DOMAIN word = 0..(max_words - 1)
WellFormed == A!AWellFormed
\* the hash table names exactly the live slots
HtExact == /\ \A i \in Live : word[i].word # NIL /\ Canon(word[i].word) \in DOMAIN ht /\ ht[Canon(word[i].word)] = i
           /\ \A c \in DOMAIN ht : ht[c] \in Live
\* walking the links from a base word visits exactly its alternates, each once, and only live words
ChainExact == \A i \in Live : /\ word[i].base \in Live
                              /\ A!ChainOK(A!AltsOf(Proj, word[i].base), ChainFrom(word[i].base))
\* every live word has the context tables a search needs, filled from its own pronunciation
D2pComplete == \A i \in Live : TablesFor(i)
NoCrash == ~crashed
\* an accepted addition with update set leaves the active search initialised for the grown dictionary
SearchFresh == (last.op = "add" /\ last.u /\ last.ret >= 0 /\ srch.active) => srch.n = n_word
=============================================================================
