---- MODULE MC_Api ----
EXTENDS ApiImpl, Json
TourView == st
DumpEdge == PrintT(<<"EDGE", ToJson([f |-> ToString(st), a |-> last', t |-> ToString(st')])>>)
====
