SPECIFICATION Spec
CONSTANTS
  MaxLen = 100
INVARIANTS TypeOK NoUttWithoutGrammar
ACTION_CONSTRAINT DumpEdge
VIEW TourView
CHECK_DEADLOCK FALSE
