------------------------------ MODULE ApiTrace ------------------------------
(***************************************************************************)
(* Layer C for C09: executions of the API-history tours.  Before every     *)
(* call the driver announces the return class the protocol model ApiImpl   *)
(* documents for it in the current abstract state (Mark "E:<class>"); the  *)
(* next API event must show that class.  The last utterance of every       *)
(* execution is a fixed probe (known grammar, CMN state and audio): its    *)
(* result must be the same in every execution, i.e. whatever happened      *)
(* before - errors included - left the decoder usable and unchanged.       *)
(* (Memory errors, assertion failures and leaks are observed by the        *)
(* sanitizers at process level and reported by the driver.)                *)
(***************************************************************************)
EXTENDS Naturals, Sequences, TLC, Json, IOUtils

JTrace == ndJsonDeserialize(IOEnv.TRACE)
VARIABLES l, exp, probe
Ev == JTrace[l]
Clause(name, cond) == IF cond THEN TRUE ELSE PrintT(<<"CLAUSE-FAILED", name, l>>) /\ FALSE

TInit == l = 1 /\ exp = "none" /\ probe = [set |-> FALSE] /\ TLCSet(1, 0)

RetCls(r) == IF r < 0 THEN "err" ELSE "ok"
Cls == CASE Ev.e = "Start" -> RetCls(Ev.ret)
         [] Ev.e = "End" -> RetCls(Ev.ret)
         [] Ev.e = "Feed" -> IF Ev.ret < 0 THEN "err" ELSE "n"
         [] Ev.e = "Grammar" -> RetCls(Ev.ret)
         [] Ev.e = "AddWord" -> IF Ev.ret < 0 THEN "err" ELSE "n"
         [] Ev.e = "SetCmn" -> RetCls(Ev.ret)
         [] Ev.e = "Call" -> Ev.cls
Match(e, c) == \/ e = "none" \/ e = c
               \/ (e = "nullobj" /\ c \in {"null", "obj"})

TMark == /\ Ev.e = "Mark"
         /\ exp' = IF Ev.v = "__case__" THEN "none" ELSE Ev.v
         /\ UNCHANGED probe
TApi == /\ Ev.e \in {"Start", "End", "Feed", "Grammar", "AddWord", "SetCmn", "Call"}
        /\ Clause("return-class", Match(exp, Cls))
        /\ exp' = "none" /\ UNCHANGED probe
ResProj == [hyp |-> Ev.hyp, score |-> Ev.score, scored |-> Ev.scored,
            segs |-> [i \in DOMAIN Ev.segs |-> <<Ev.segs[i].w, Ev.segs[i].sf, Ev.segs[i].ef, Ev.segs[i].ascr, Ev.segs[i].lscr>>]]
TResult == /\ Ev.e = "Result"
           /\ IF Ev.tag # "probe" THEN UNCHANGED probe
              ELSE /\ Clause("decoder-still-usable", ~probe.set \/ probe.res = ResProj)
                   /\ probe' = IF probe.set THEN probe ELSE [set |-> TRUE, res |-> ResProj]
           /\ UNCHANGED exp
TOther == Ev.e \in {"Header", "Use", "Align", "Lattice", "NBest", "Json", "Cmn", "SynHist"} /\ UNCHANGED <<exp, probe>>

TNext == /\ l <= Len(JTrace)
         /\ (TMark \/ TApi \/ TResult \/ TOther)
         /\ l' = l + 1
         /\ TLCSet(1, l)
TSpec == TInit /\ [][TNext]_<<l, exp, probe>>
Accepted == IF TLCGet(1) = Len(JTrace) THEN TRUE
            ELSE PrintT(<<"REJECTED-AT", TLCGet(1) + 1>>) /\ FALSE
=============================================================================
