------------------------------- MODULE ApiImpl -------------------------------
(***************************************************************************)
(* C09: the documented calling protocol of the decoder as a state machine, *)
(* with the RETURN CLASS decoder.h documents for every call in every       *)
(* state (ok = 0, err = negative, n = non-negative count/id, obj, null).   *)
(* The abstract state is what the protocol talks about:                    *)
(*   utt   "idle" (never started / re-initialised), "started", "ended"     *)
(*   gram  a grammar is loaded                                             *)
(*   fed   how much audio this utterance got: none / tiny (< 1 window) /   *)
(*         some                                                            *)
(*   rc    references held on the decoder (1..2)                           *)
(* Calls that the protocol only allows between utterances (loading a       *)
(* grammar, adding a word, re-initialising) are generated only there.      *)
(* Out-of-order calls (audio before start or after end, start twice, end   *)
(* without start) and documented-bad arguments are generated everywhere:   *)
(* they must return the documented error value and change nothing.         *)
(* The complete state graph is exported; every (state, call) edge becomes  *)
(* part of a tour that is executed on the real library under ASan + LSan   *)
(* with assertions enabled.                                                *)
(***************************************************************************)
EXTENDS Naturals, Sequences, TLC

CONSTANTS MaxLen
VARIABLES st, last, n
vars == <<st, last, n>>

Init == st = [utt |-> "idle", gram |-> FALSE, fed |-> "none", rc |-> 1, kept |-> FALSE] /\ last = <<"init", "", "ok">> /\ n = 0

Between == st.utt # "started"
More(a, b) == IF a = "some" \/ b = "some" THEN "some" ELSE IF a = "tiny" \/ b = "tiny" THEN "tiny" ELSE "none"

\* op, argument, documented return class, new state
Call(op, arg, cls, nst) == st' = nst /\ last' = <<op, arg, cls>>

Start == IF st.utt = "started" \/ ~st.gram THEN Call("start", "", "err", st)
         ELSE Call("start", "", "ok", [st EXCEPT !.utt = "started", !.fed = "none"])
\* a call with full_utt set carries the whole utterance: it is the only audio call of its utterance (fed = "full")
Full(kind) == kind \in {"full", "full-nosearch"}
Feed(kind) ==
    IF st.utt = "started"
    THEN /\ (Full(kind) => st.fed = "none") /\ st.fed # "full"
         /\ Call("feed", kind, "n", [st EXCEPT !.fed = IF Full(kind) THEN "full"
                                                       ELSE More(@, IF kind \in {"tiny", "zero"} THEN (IF kind = "tiny" THEN "tiny" ELSE "none") ELSE "some")])
    ELSE Call("feed", kind, "err", st)            \* "Number of frames of data searched, or <0 for error"
End == IF st.utt = "started" THEN Call("end", "", "ok", [st EXCEPT !.utt = "ended"])
       ELSE Call("end", "", "err", st)
\* queries: any time; without a grammar there is nothing to report
\* (decoder_result_json documents no NULL; without a grammar it may give an empty result object)
Query(q, arg) == Call(q, arg, IF st.gram \/ q = "json" THEN "nullobj" ELSE "null", st)
Info(q, arg, cls) == Call(q, arg, cls, st)
\* between utterances only
SetGram(kind) == /\ Between
                 /\ IF kind \in {"jsgf", "align", "fsg", "jsgffile", "align-empty", "jsgf-null-only"} THEN Call("gram", kind, "ok", [st EXCEPT !.gram = TRUE])
                    ELSE Call("gram", kind, "err", st)        \* previous grammar (if any) kept
AddWord(kind) == /\ Between
                 /\ Call("addword", kind, IF kind = "new" THEN "n" ELSE "err", st)
Reinit == Between /\ Call("reinit", "", "ok", [st EXCEPT !.utt = "idle", !.gram = FALSE, !.fed = "none"])
\* the front end and feature computation alone are rebuilt: grammar, dictionary and utterance state stay
ReinitFeat == Between /\ Call("reinitfeat", "", "ok", st)
Retain == st.rc = 1 /\ Call("retain", "", "obj", [st EXCEPT !.rc = 2])
Release == st.rc = 2 /\ Call("release", "", "n", [st EXCEPT !.rc = 1])
\* the last reference is released IN ANY STATE - in mid-utterance too, with audio fed or not: nothing is called afterwards
\* (what LeakSanitizer then finds at process exit is what "every allocation has been freed" is about)
Free == st.rc = 1 /\ Call("free", "", "n", [st EXCEPT !.utt = "freed"])
\* the caller's own reference to a lattice (lattice_retain): the lattice then outlives the utterance, the grammar, a
\* re-initialisation and the decoder itself, and stays usable (nodes, links, best path, posteriors) until it is released.
\* kept = TRUE means "may hold one" (whether there is a lattice at all is the query's nullobj)
LatKeep == Call("latkeep", "", IF st.gram THEN "nullobj" ELSE "null", [st EXCEPT !.kept = st.gram])
LatUse == st.kept /\ Call("latuse", "", "nullobj", st)
LatDrop == st.kept /\ Call("latdrop", "", "nullobj", [st EXCEPT !.kept = FALSE])

FeedKinds == {"tiny", "norm", "f32", "long", "f32long", "zero", "nosearch", "f32nosearch", "full", "full-nosearch"}
GramKinds == {"jsgf", "align", "fsg", "jsgffile", "bad-syntax", "undefined-rule", "unknown-word", "fsg-unknown-word", "no-public",
              "jsgffile-missing", "align-empty", "jsgf-empty", "jsgf-null-only"}
WordKinds == {"new", "duplicate", "bad-phone", "empty-word", "empty-pron", "alt-without-base"}
Queries == {<<"hyp", "0">>, <<"segiter", "0">>, <<"segiter", "1">>, <<"segiter", "2">>, <<"nbestiter", "3">>,
            <<"nbestiter", "1">>, <<"lattice", "0">>, <<"lattice", "1">>, <<"lattice", "2">>, <<"lattice", "3">>, <<"alignwalk", "0">>, <<"alignwalk", "1">>,
            <<"json", "0">>, <<"json", "1">>, <<"json", "2">>}

Alive == \/ Start \/ End \/ Free \/ LatKeep \/ Reinit \/ ReinitFeat \/ Retain \/ Release
         \/ \E k \in FeedKinds : Feed(k)
         \/ \E q \in Queries : Query(q[1], q[2])
         \/ \E k \in GramKinds : SetGram(k)
         \/ \E k \in WordKinds : AddWord(k)
         \/ Info("nframes", "", "n") \/ Info("getcmn", "0", "obj") \/ Info("getcmn", "1", "obj") \/ Info("setcmn", "", "ok")
         \/ Info("setlogfile", "0", "ok") \/ Info("setlogfile", "1", "ok") \/ Info("setlogfile", "2", "err") \/ Info("prob", "", "ok")
         \/ Info("lookup", "0", "obj") \/ Info("lookup", "1", "null") \/ Info("lookup", "2", "null") \/ Info("config", "", "obj")
Next == /\ n < MaxLen /\ n' = n + 1
        /\ \/ LatUse \/ LatDrop
           \/ st.utt # "freed" /\ Alive
Spec == Init /\ [][Next]_vars

TypeOK == st.utt \in {"idle", "started", "ended", "freed"} /\ st.rc \in 1..2
\* the protocol's own consistency: audio only counts inside an utterance; no utterance without a grammar
NoUttWithoutGrammar == st.utt = "started" => st.gram
ErrorsChangeNothing == last[3] = "err" => TRUE      \* (by construction: every err edge is a self-loop; see Call)
=============================================================================
