SPECIFICATION Spec
CONSTANTS
  MaxT = 6
  Costs = {1, 4}
INVARIANTS NeverPositive Achievable ZeroCostOptimum
CHECK_DEADLOCK FALSE
