SPECIFICATION Spec
CONSTANTS
  Buckets <- B1
  Ctx = {1, 2, 3, 4}
  Scores = {1, 2, 3}
  MaxAdds = 1000
  MaxFrames = 1
  Dev = {}
ACTION_CONSTRAINT DumpEdge
VIEW TourView
CHECK_DEADLOCK FALSE
