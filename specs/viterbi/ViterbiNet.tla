----------------------------- MODULE ViterbiNet -----------------------------
(***************************************************************************)
(* C02: the declarative decoding network and the exact max-plus (Viterbi)  *)
(* recursion over it.  Nothing of the lextree is here (no shared roots, no *)
(* prefix sharing, no active lists, no history pruning): those are the     *)
(* optimisations whose score-preservation is being decided.                *)
(*                                                                         *)
(* Input tables (record N, from the Net event):                            *)
(*   arcs   <<from, to, word (0 = null), lp>>   the search's grammar with   *)
(*          silence/alternate arcs, nulls closed; lp = scaled log-prob      *)
(*   words  [filler, ph (phone ids), tm (transition matrix per phone), and  *)
(*          ci | lrdiph[lc] | ldiph[lc], rssid[rc], internal[k]]            *)
(*   sseq[model] = senones of its 3 states;  tp[tmat] = 3 x 4 costs (255 =  *)
(*   no transition);  pip, wip insertion penalties;  sil the silence phone  *)
(*                                                                         *)
(* Network, as the property describes it: for every word arc s -w-> d       *)
(*   filler        one context-independent HMM; shows silence to neighbours *)
(*   one phone     one HMM per left context lc (model lrdiph[lc], right     *)
(*                 context silence - the decoder's documented choice), its  *)
(*                 exit serves every right context                          *)
(*   n >= 2 phones a chain: first phone by left context (ldiph[lc]), inner  *)
(*                 phones, last phone by right context (rssid[rc])          *)
(* HMM instances with the same model on the same arc/position are merged    *)
(* (that cannot change a maximum).  Penalties: wip + pip on entering a      *)
(* word, pip on every further phone, the arc's lp on entering its last      *)
(* phone (one-phone words and fillers: on entering the word).               *)
(* One frame: every state takes  score - senone cost, then the best         *)
(* transition; word exits of the frame are propagated ONE step through the  *)
(* (closed) null arcs and enter the words leaving the reached state whose   *)
(* first phone they can serve, taking effect in the next frame.             *)
(***************************************************************************)
EXTENDS Naturals, Integers, Sequences, FiniteSets, TLC

NEG == -500000000
Max2(a, b) == IF a >= b THEN a ELSE b
MaxSet(S) == IF S = {} THEN NEG ELSE CHOOSE m \in S : \A x \in S : x <= m
Plus(a, b) == IF a <= NEG THEN NEG ELSE a + b          \* -infinity stays -infinity
Cost(c) == IF c >= 255 THEN NEG ELSE -c                  \* a transition cost as a score increment

(* ---------- static structure ---------- *)
WordOf(N, a) == N.words[N.arcs[a][3]]
IsNull(N, a) == N.arcs[a][3] = 0
NPh(N, a) == Len(WordOf(N, a).ph)
Kind(N, a) == IF WordOf(N, a).filler THEN "f" ELSE IF NPh(N, a) = 1 THEN "s" ELSE "m"
FirstPh(N, a) == IF Kind(N, a) = "f" THEN N.sil ELSE WordOf(N, a).ph[1]
LastPh(N, a) == IF Kind(N, a) = "f" THEN N.sil ELSE WordOf(N, a).ph[NPh(N, a)]
WordArcs(N) == {a \in DOMAIN N.arcs : ~IsNull(N, a) /\ NPh(N, a) > 0}
NullArcs(N) == {a \in DOMAIN N.arcs : IsNull(N, a)}
\* the phones that can be a left / right context at all (1-based table index = phone id + 1)
LCs(N) == {N.sil} \cup {LastPh(N, a) : a \in WordArcs(N)}
RCs(N) == {N.sil} \cup {FirstPh(N, a) : a \in WordArcs(N)}

\* right contexts possible at a grammar state: first phones of what can follow, through null arcs
RECURSIVE NullFwd(_, _)
NullFwd(N, S) == LET T == S \cup {N.arcs[a][2] : a \in {x \in NullArcs(N) : N.arcs[x][1] \in S}} IN IF T = S THEN S ELSE NullFwd(N, T)
RCAt(N, s) == {N.sil} \cup {FirstPh(N, a) : a \in {x \in WordArcs(N) : N.arcs[x][1] \in NullFwd(N, {s})}}

\* HMM instances: <<arc, position (1..n), model>>
RootModel(N, a, lc) == IF Kind(N, a) = "f" THEN WordOf(N, a).ci
                       ELSE IF Kind(N, a) = "s" THEN WordOf(N, a).lrdiph[lc + 1]
                       ELSE WordOf(N, a).ldiph[lc + 1]
LeafModel(N, a, rc) == WordOf(N, a).rssid[rc + 1]
Roots(N, a) == {<<a, 1, RootModel(N, a, lc)>> : lc \in LCs(N)}
Inner(N, a) == IF Kind(N, a) = "m" THEN {<<a, k, WordOf(N, a).internal[k - 1]>> : k \in 2..(NPh(N, a) - 1)} ELSE {}
\* a last-phone instance exists for every right context that can follow the arc's destination state
Leaves(N, a) == IF Kind(N, a) = "m" THEN {<<a, NPh(N, a), LeafModel(N, a, rc)>> : rc \in RCAt(N, N.arcs[a][2])} ELSE {}
Hmms(N) == UNION {Roots(N, a) \cup Inner(N, a) \cup Leaves(N, a) : a \in WordArcs(N)}
Sen(N, h) == N.sseq[ToString(h[3])]
Tp(N, h) == N.tp[ToString(WordOf(N, h[1]).tm[h[2]])]
\* the exit of the word: roots of fillers / one-phone words, leaves of the others
IsExit(N, h) == h[2] = NPh(N, h[1])
\* predecessors of an instance inside its word
PredIn(N, h) == IF h[2] = 1 THEN {}
                ELSE IF h[2] = 2 THEN Roots(N, h[1])
                ELSE {<<h[1], h[2] - 1, WordOf(N, h[1]).internal[h[2] - 2]>>}
\* what entering instance h costs on top of its predecessor's exit score
PhonePen(N, h) == N.pip + (IF IsExit(N, h) THEN N.arcs[h[1]][4] ELSE 0)
WordPen(N, a) == N.wip + N.pip + (IF Kind(N, a) = "m" THEN 0 ELSE N.arcs[a][4])

States(N) == 0..(N.n - 1)

(* ---------- static index, computed once per network (the definitions above, tabulated) ---------- *)
Index(N) ==
    LET hs == Hmms(N)
        lcs == LCs(N)
        rcs == RCs(N)
        wa == WordArcs(N)
        keys == States(N) \X lcs
    IN [hmms |-> hs, lcs |-> lcs, rcs |-> rcs, keys |-> keys,
        sen |-> TLCEval([h \in hs |-> [j \in 1..3 |-> ToString(Sen(N, h)[j])]]),
        tp |-> TLCEval([h \in hs |-> Tp(N, h)]),
        \* word arcs that end in state k[1] with last phone k[2]: one-phone/filler ones and multi-phone ones
        intoS |-> TLCEval([k \in keys |-> {a \in wa : Kind(N, a) # "m" /\ N.arcs[a][2] = k[1] /\ LastPh(N, a) = k[2]}]),
        intoM |-> TLCEval([k \in keys |-> {a \in wa : Kind(N, a) = "m" /\ N.arcs[a][2] = k[1] /\ LastPh(N, a) = k[2]}]),
        roots |-> TLCEval([a \in wa |-> Roots(N, a)]),
        rootlcs |-> TLCEval([h \in {x \in hs : x[2] = 1} |-> {lc \in lcs : RootModel(N, h[1], lc) = h[3]}]),
        pred |-> TLCEval([h \in {x \in hs : x[2] # 1} |-> PredIn(N, h)]),
        nullinto |-> TLCEval([st \in States(N) |-> {a \in NullArcs(N) : N.arcs[a][2] = st}]),
        rcat |-> TLCEval([st \in States(N) |-> RCAt(N, st)])]

(* ---------- one frame ---------- *)
\* sc[h] = <<s0, s1, s2>> scores at the start of the frame; cost[senone string] from the Frame event
Eval(ix, sc, cost, h) ==
    LET sn == ix.sen[h]
        tp == ix.tp[h]
        e(j) == IF sc[h][j] <= NEG THEN NEG ELSE sc[h][j] - cost[sn[j]]
        e0 == e(1)  e1 == e(2)  e2 == e(3)
    IN [out |-> Max2(Plus(e2, Cost(tp[3][4])), Plus(e1, Cost(tp[2][4]))),
        s |-> << Plus(e0, Cost(tp[1][1])),
                 Max2(Plus(e1, Cost(tp[2][2])), Plus(e0, Cost(tp[1][2]))),
                 Max2(Max2(Plus(e2, Cost(tp[3][3])), Plus(e1, Cost(tp[2][3]))), Plus(e0, Cost(tp[1][3]))) >>]

\* word-exit entries: ent[<<state, lc>>] = [all |-> score serving every right context, rc |-> [rc -> score]]
ExitAll(N, ix, ev, k) == MaxSet(UNION {{ev[h].out : h \in ix.roots[a]} : a \in ix.intoS[k]})
ExitRc(N, ix, ev, k, rc) == MaxSet({ev[<<a, NPh(N, a), LeafModel(N, a, rc)>>].out : a \in {x \in ix.intoM[k] : rc \in ix.rcat[N.arcs[x][2]]}})
\* score with which an entry at state s with left context lc can start a word whose first phone is fp
Avail(ent, s, lc, fp) == Max2(ent[<<s, lc>>].all, ent[<<s, lc>>].rc[fp])
\* one step through the null arcs (the grammar is closed): sources are the entries before propagation
NullProp(N, ix, ent) ==
    [k \in ix.keys |->
        LET ins == ix.nullinto[k[1]]
        IN IF ins = {} THEN ent[k]
           ELSE [all |-> MaxSet({ent[k].all} \cup {Plus(ent[<<N.arcs[a][1], k[2]>>].all, N.arcs[a][4]) : a \in ins}),
                 rc |-> [r \in ix.rcs |-> MaxSet({ent[k].rc[r]} \cup {Plus(ent[<<N.arcs[a][1], k[2]>>].rc[r], N.arcs[a][4]) : a \in ins})]]]
\* entering the words that leave the reached states
Enter(N, ix, ent, h) ==
    LET a == h[1]
    IN Plus(MaxSet({Avail(ent, N.arcs[a][1], lc, FirstPh(N, a)) : lc \in ix.rootlcs[h]}), WordPen(N, a))

NoEnt(ix) == [k \in ix.keys |-> [all |-> NEG, rc |-> [r \in ix.rcs |-> NEG]]]
\* before the first frame: a dummy entry at the start state, silence as left context, every right context
StartEnt(N, ix) == [NoEnt(ix) EXCEPT ![<<N.start, N.sil>>].all = 0]

InitScores(N, ix) == LET ent == NullProp(N, ix, StartEnt(N, ix))
                     IN [h \in ix.hmms |-> <<IF h[2] = 1 THEN Enter(N, ix, ent, h) ELSE NEG, NEG, NEG>>]

Step(N, ix, sc, cost) ==
    LET ev == TLCEval([h \in ix.hmms |-> Eval(ix, sc, cost, h)])
        raw == TLCEval([k \in ix.keys |-> [all |-> ExitAll(N, ix, ev, k),
                                          rc |-> [r \in ix.rcs |-> ExitRc(N, ix, ev, k, r)]]])
        ent == TLCEval(NullProp(N, ix, raw))
        inn(h) == IF h[2] = 1 THEN Enter(N, ix, ent, h)
                  ELSE Plus(MaxSet({ev[p].out : p \in ix.pred[h]}), PhonePen(N, h))
    IN [sc |-> [h \in ix.hmms |-> <<Max2(ev[h].s[1], inn(h)), ev[h].s[2], ev[h].s[3]>>],
        ent |-> ent]

\* the optimum after the last frame: the best entry at the final state.  Nothing follows the last word, so
\* its last phone may use any right context that could have followed at the state it exited into (the
\* entries that reached the final state through null arcs keep theirs) - the decoder's convention
Opt(N, ix, ent) == MaxSet(UNION {{ent[<<N.final, lc>>].all} \cup {ent[<<N.final, lc>>].rc[r] : r \in ix.rcs} : lc \in ix.lcs})
=============================================================================
