SPECIFICATION Spec
CONSTANTS
  Buckets <- B2
  Ctx = {1, 2, 3}
  Scores = {1, 2, 3}
  MaxAdds = 3
  MaxFrames = 1
  Dev = {}
INVARIANTS BestKept Descending NonEmptyDisjoint KeptWereOffered
PROPERTY TableGrows
VIEW View
CHECK_DEADLOCK FALSE
