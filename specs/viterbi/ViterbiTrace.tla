---------------------------- MODULE ViterbiTrace ----------------------------
(***************************************************************************)
(* Layer C for C02: per execution the recorded network tables (Net), the   *)
(* senone scores the acoustic scorer produced for every frame (Frame, from *)
(* the acmod_score wrap) and the decoder's final path score (Result).  TLC *)
(* runs the exact recursion of ViterbiNet over the frames and requires     *)
(*   beams open:     reported score = optimum                              *)
(*   default beams:  reported score <= optimum (when a hypothesis exists)  *)
(***************************************************************************)
EXTENDS ViterbiNet, Json, IOUtils

JTrace == ndJsonDeserialize(IOEnv.TRACE)
VARIABLES l, net, sc, ent, nfr
Ev == JTrace[l]
Clause(name, cond) == IF cond THEN TRUE ELSE PrintT(<<"CLAUSE-FAILED", name, l>>) /\ FALSE

TInit == l = 1 /\ net = [ok |-> FALSE] /\ sc = << >> /\ ent = << >> /\ nfr = 0 /\ TLCSet(1, 0)
Open(b) == b < -400000
\* the network the optimum is taken over holds EVERY pronunciation the dictionary has for a word of the grammar (unless
\* the configuration turns alternates off): beside every arc of a base word lies one for each of its alternates
AllProns(N) == \A i \in DOMAIN N.alts : \A j \in DOMAIN N.alts[i][2] :
                  LET a == N.alts[i][2][j] IN
                  /\ a # 0
                  /\ \A k \in DOMAIN N.arcs : N.arcs[k][3] = N.alts[i][1] =>
                        \E m \in DOMAIN N.arcs : /\ N.arcs[m][1] = N.arcs[k][1] /\ N.arcs[m][2] = N.arcs[k][2]
                                                 /\ N.arcs[m][3] = a /\ N.arcs[m][4] = N.arcs[k][4]
TNet == /\ Ev.e = "Net"
        /\ Clause("every-pronunciation-in-network", ~Ev.usealt \/ AllProns(Ev))
        /\ LET N == Ev IN
             LET ix == TLCEval(Index(N)) IN
             /\ net' = [ok |-> TRUE, N |-> N, ix |-> ix, open |-> Open(N.beam) /\ Open(N.pbeam) /\ Open(N.wbeam)]
             /\ sc' = TLCEval(InitScores(N, ix))
             /\ ent' = TLCEval(NullProp(N, ix, StartEnt(N, ix)))
        /\ nfr' = 0
TFrame == /\ Ev.e = "Frame" /\ Ev.pass = 1 /\ net.ok
          /\ Clause("frames-in-order", Ev.t = nfr)
          /\ LET r == Step(net.N, net.ix, sc, Ev.sen) IN sc' = TLCEval(r.sc) /\ ent' = r.ent
          /\ nfr' = nfr + 1 /\ UNCHANGED net
RECURSIVE SumProb(_, _)
SumProb(sg, n) == IF n = 0 THEN 0 ELSE SumProb(sg, n - 1) + sg[n].prob
TResult == /\ Ev.e = "Result"
           /\ IF ~Ev.final \/ ~net.ok \/ nfr = 0 THEN TRUE
              ELSE LET opt == Opt(net.N, net.ix, ent)
                       \* a pruned search may lose every path before the last frame and report the best path up to
                       \* the last frame that still had a word exit: that score is not the score of an alignment of
                       \* ALL frames and is not compared
                       timed == SelectSeq(Ev.segs, LAMBDA x : x.k # 2)
                       covers == timed # <<>> /\ timed[Len(timed)].ef = nfr - 1
                       \* a result without real words has no hypothesis string and so no score from decoder_hyp
                       \* (the driver records 0): its path score is the sum over its segmentation
                       reported == IF Ev.hypnull THEN SumProb(Ev.segs, Len(Ev.segs)) ELSE Ev.score
                   IN /\ Clause("all-frames-recorded", Ev.scored = nfr)
                      /\ IF net.open
                         THEN /\ Clause("open-beam-finds-a-path-iff-one-exists", Ev.hypnull = (opt <= NEG) \/ Ev.segsnull = (opt <= NEG))
                              /\ Clause("open-beam-score-is-optimum", Ev.segsnull \/ reported = opt)
                         ELSE Clause("pruned-score-at-most-optimum", Ev.segsnull \/ ~covers \/ reported <= opt)
           /\ UNCHANGED <<net, sc, ent, nfr>>
TOther == Ev.e \in {"Header", "Grammar", "Start", "Feed", "End", "Mark"} /\ UNCHANGED <<net, sc, ent, nfr>>
TNext == /\ l <= Len(JTrace)
         /\ (TNet \/ TFrame \/ TResult \/ TOther)
         /\ l' = l + 1
         /\ TLCSet(1, l)
TSpec == TInit /\ [][TNext]_<<l, net, sc, ent, nfr>>
Accepted == IF TLCGet(1) = Len(JTrace) THEN TRUE
            ELSE PrintT(<<"REJECTED-AT", TLCGet(1) + 1>>) /\ FALSE
=============================================================================
