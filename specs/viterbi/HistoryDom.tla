----------------------------- MODULE HistoryDom -----------------------------
(***************************************************************************)
(* The word-exit history of the FSG search within one frame                *)
(* (src/fsg_history.c: fsg_history_entry_add, fsg_history_end_frame).      *)
(*                                                                         *)
(* Every word exit is recorded for the grammar state it reaches, the last  *)
(* phone of the word (the left context of whatever follows) and the SET of *)
(* right-context phones for which the exit's final-phone model is the      *)
(* right one.  For each (state, left context) the entries of the current   *)
(* frame are kept in a list in descending score order, and an entry keeps  *)
(* only the right contexts that no better entry already serves; an entry   *)
(* whose set becomes empty is dropped.  At the end of the frame the lists  *)
(* are appended to the permanent table.                                    *)
(*                                                                         *)
(* Layer A (what the Viterbi optimum needs, C02): for every bucket and     *)
(* every right context r, the best score among the surviving entries that  *)
(* serve r equals the best score among ALL entries offered for r.          *)
(* Layer B: the list manipulation transcribed step by step.                *)
(***************************************************************************)
EXTENDS Integers, Sequences, FiniteSets, TLC

CONSTANTS Buckets,    \* (state, left context) pairs, in the order end_frame visits them
          Ctx,        \* right-context phones
          Scores,     \* path scores (integers; larger is better)
          MaxAdds, MaxFrames,
          Dev         \* {} or {"sub-uses-lower-word"}: negative control, see Sub

NEG == -1000000
RcSets == SUBSET Ctx \ {{}}

VARIABLES lists,      \* bucket -> sequence of [score, rc, frame, pred]
          offered,    \* bucket -> set of [score, rc] offered in this frame (ghost: what Layer A talks about)
          table,      \* permanent entries: sequence of [score, rc, frame, pred, b]
          frame, nadds, last
vars == <<lists, offered, table, frame, nadds, last>>

BucketSet == {Buckets[i] : i \in DOMAIN Buckets}
MaxOf(S) == IF S = {} THEN NEG ELSE CHOOSE x \in S : \A y \in S : y <= x
BestOffered(b, r) == MaxOf({e.score : e \in {o \in offered[b] : r \in o.rc}})
BestKeptIn(L, r) == MaxOf({L[i].score : i \in {j \in DOMAIN L : r \in L[j].rc}})

-----------------------------------------------------------------------------
(* Context sets are bit vectors of several machine words; subtraction is word by word.  The negative control   *)
(* subtracts the LOWER word of the other set from the upper word (contexts c > Half pair with c - Half), the   *)
(* kind of slip a check of this mechanism has to see.                                                          *)
Half == Cardinality(Ctx) \div 2
Sub(src, sub) == IF "sub-uses-lower-word" \in Dev
                 THEN {c \in src : IF c > Half THEN (c - Half) \notin sub ELSE c \notin sub}
                 ELSE src \ sub

(* fsg_history_entry_add for frame >= 0, on the list L of its bucket *)
RECURSIVE Walk(_, _, _, _)
\* walk from position i: returns [pos, rc]; pos = 0 means the new entry is ignored
Walk(L, i, score, rc) ==
    IF i > Len(L) THEN [pos |-> i, rc |-> rc]
    ELSE IF score > L[i].score THEN [pos |-> i, rc |-> rc]               \* new entry is better: insert here
    ELSE LET rc2 == Sub(rc, L[i].rc)                                          \* an entry at least as good serves these already
         IN IF rc2 = {} THEN [pos |-> 0, rc |-> {}] ELSE Walk(L, i + 1, score, rc2)

Reduce(L, rc) == SelectSeq([i \in DOMAIN L |-> [L[i] EXCEPT !.rc = Sub(@, rc)]], LAMBDA e : e.rc # {})

Insert(L, score, rc, fr, pred) ==
    LET w == Walk(L, 1, score, rc)
    IN IF w.pos = 0 THEN L
       ELSE SubSeq(L, 1, w.pos - 1) \o <<[score |-> score, rc |-> w.rc, frame |-> fr, pred |-> pred]>>
            \o Reduce(SubSeq(L, w.pos, Len(L)), w.rc)

-----------------------------------------------------------------------------
Init == /\ lists = [b \in BucketSet |-> <<>>] /\ offered = [b \in BucketSet |-> {}]
        /\ table = <<>> /\ frame = 0 /\ nadds = 0 /\ last = [op |-> "init"]

Add(b, score, rc) ==
    /\ nadds < MaxAdds /\ nadds' = nadds + 1 /\ frame < MaxFrames
    /\ lists' = [lists EXCEPT ![b] = Insert(@, score, rc, frame, Len(table))]
    /\ offered' = [offered EXCEPT ![b] = @ \cup {[score |-> score, rc |-> rc]}]
    /\ UNCHANGED <<table, frame>>
    /\ last' = [op |-> "add", b |-> b, score |-> score, rc |-> rc, pred |-> Len(table)]

RECURSIVE Flatten(_, _)
Flatten(bs, L) == IF bs = <<>> THEN <<>>
                  ELSE [i \in DOMAIN L[Head(bs)] |-> [score |-> L[Head(bs)][i].score, rc |-> L[Head(bs)][i].rc,
                                                       frame |-> L[Head(bs)][i].frame, pred |-> L[Head(bs)][i].pred, b |-> Head(bs)]]
                       \o Flatten(Tail(bs), L)
EndFrame ==
    /\ frame < MaxFrames
    /\ table' = table \o Flatten(Buckets, lists)
    /\ lists' = [b \in DOMAIN lists |-> <<>>] /\ offered' = [b \in DOMAIN offered |-> {}]
    /\ frame' = frame + 1 /\ nadds' = 0
    /\ last' = [op |-> "endframe", n |-> Len(table) + Len(Flatten(Buckets, lists))]

DoAdd == \E b \in BucketSet, s \in Scores, rc \in RcSets : Add(b, s, rc)
Next == DoAdd \/ EndFrame
Spec == Init /\ [][Next]_vars

-----------------------------------------------------------------------------
(* Layer A *)
BestKept == \A b \in BucketSet, r \in Ctx : BestKeptIn(lists[b], r) = BestOffered(b, r)
(* structure the header documents *)
Descending == \A b \in BucketSet : \A i \in 1..(Len(lists[b]) - 1) : lists[b][i].score >= lists[b][i + 1].score
NonEmptyDisjoint == \A b \in BucketSet : \A i, j \in DOMAIN lists[b] :
                       lists[b][i].rc # {} /\ (i # j => lists[b][i].rc \cap lists[b][j].rc = {})
KeptWereOffered == \A b \in BucketSet : \A i \in DOMAIN lists[b] :
                       \E o \in offered[b] : o.score = lists[b][i].score /\ lists[b][i].rc \subseteq o.rc
(* the permanent table only grows, and never holds an entry that was dominated in its frame *)
TableGrows == [][Len(table') >= Len(table) /\ SubSeq(table', 1, Len(table)) = table]_vars
\* (offered is what the invariants talk about: it must stay in the view; only the ghost label is hidden)
View == <<lists, offered, table, frame, nadds>>
=============================================================================
