SPECIFICATION Spec
CONSTANTS
  Buckets <- B1
  Ctx = {1, 2, 3, 4}
  Scores = {1, 2, 3}
  MaxAdds = 4
  MaxFrames = 1
  Dev = {}
INVARIANTS BestKept Descending NonEmptyDisjoint KeptWereOffered
PROPERTY TableGrows
VIEW View
CHECK_DEADLOCK FALSE
