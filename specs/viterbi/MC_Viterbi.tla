----------------------------- MODULE MC_Viterbi -----------------------------
(***************************************************************************)
(* ViterbiNet's recursion on a tiny synthetic network with EVERY           *)
(* assignment of frame costs from a small set: a two-phone word, a         *)
(* one-phone word and a silence filler between a start and a final state,  *)
(* two left/right contexts.  Checked: scores never rise above 0 (costs are *)
(* non-negative), the optimum is achievable exactly when enough frames     *)
(* have passed for some sentence (3 frames per phone: no skip transitions),*)

(* and an all-zero                                                         *)
(* cost stream gives exactly the sum of the penalties on the best path.    *)
(***************************************************************************)
EXTENDS ViterbiNet

CONSTANTS MaxT, Costs
\* phones: 0 = SIL, 1 = A, 2 = B;  models 10.. ; senones "0".."5"
TP == <<<<0, 0, 255, 255>>, <<255, 0, 0, 255>>, <<255, 255, 0, 0>>>>
N0 == [n |-> 2, start |-> 0, final |-> 1, sil |-> 0, nci |-> 3, pip |-> -1, wip |-> -2,
       arcs |-> << <<0, 1, 1, -3>>, <<0, 1, 2, 0>>, <<0, 0, 3, -5>>, <<1, 1, 3, -5>> >>,
       words |-> << [w |-> "ab", filler |-> FALSE, ph |-> <<1, 2>>, tm |-> <<0, 0>>,
                     ldiph |-> <<10, 11, 10>>, rssid |-> <<12, 12, 13>>, internal |-> <<>>],
                    [w |-> "b", filler |-> FALSE, ph |-> <<2>>, tm |-> <<0>>, lrdiph |-> <<14, 14, 15>>],
                    [w |-> "<sil>", filler |-> TRUE, ph |-> <<0>>, tm |-> <<0>>, ci |-> 16] >>,
       sseq |-> [x \in {"10", "11", "12", "13", "14", "15", "16"} |->
                    CASE x = "10" -> <<0, 1, 2>> [] x = "11" -> <<0, 1, 3>> [] x = "12" -> <<3, 4, 5>> [] x = "13" -> <<3, 4, 2>>
                      [] x = "14" -> <<1, 2, 3>> [] x = "15" -> <<1, 2, 0>> [] x = "16" -> <<5, 5, 5>>],
       tp |-> [x \in {"0"} |-> TP]]
IX == Index(N0)
Sens == {"0", "1", "2", "3", "4", "5"}

VARIABLES sc, ent, t, zero
Init == sc = InitScores(N0, IX) /\ ent = NullProp(N0, IX, StartEnt(N0, IX)) /\ t = 0 /\ zero = TRUE
\* one frame with any cost vector in which at most one senone is expensive (keeps the branching small)
Frame(c) == /\ t < MaxT
            /\ LET r == Step(N0, IX, sc, c) IN sc' = r.sc /\ ent' = r.ent
            /\ t' = t + 1 /\ zero' = (zero /\ \A x \in Sens : c[x] = 0)
CostVecs == {[x \in Sens |-> 0]} \cup {[x \in Sens |-> IF x = y THEN v ELSE 0] : y \in Sens, v \in Costs}
Next == \E c \in CostVecs : Frame(c)
Spec == Init /\ [][Next]_<<sc, ent, t, zero>>

NeverPositive == /\ \A h \in IX.hmms : \A j \in 1..3 : sc[h][j] <= 0
                 /\ Opt(N0, IX, ent) <= 0
\* "b" alone needs 3 frames; "ab" 6: before the 3rd frame nothing can have reached the final state
Achievable == (t >= 3) <=> (Opt(N0, IX, ent) > NEG)
\* with zero costs: word b entered from the start (lp 0 + wip + pip) - fillers only make it worse
ZeroCostOptimum == (zero /\ t >= 3) => Opt(N0, IX, ent) = N0.wip + N0.pip
=============================================================================
