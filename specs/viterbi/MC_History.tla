----------------------------- MODULE MC_History -----------------------------
EXTENDS HistoryDom, Json
B2 == <<1, 2>>
B1 == <<1>>
(* the pre-seeded negative control: a context subtraction that uses the wrong half of the other set *)
\* state labels as tuples only (records and sets print in construction order until TLC normalises them)
EntT(e) == <<e.score, [c \in 1..4 |-> c \in e.rc], e.frame, e.pred>>
Label(ls, tb, fr) == <<[i \in DOMAIN Buckets |-> [k \in DOMAIN ls[Buckets[i]] |-> EntT(ls[Buckets[i]][k])]],
                       [k \in DOMAIN tb |-> <<EntT(tb[k]), tb[k].b>>], fr>>
DumpEdge == PrintT(<<"EDGE", ToJson([f |-> ToString(Label(lists, table, frame)), a |-> last', t |-> ToString(Label(lists', table', frame'))])>>)
TourView == <<lists, table, frame>>
=============================================================================
