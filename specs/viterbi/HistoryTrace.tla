---------------------------- MODULE HistoryTrace ----------------------------
(***************************************************************************)
(* Recorded executions of the real word-exit history table                 *)
(* (harness/history/hist_drv.c drives fsg_history_entry_add and            *)
(* fsg_history_end_frame directly) checked against HistoryDom.             *)
(*                                                                         *)
(* Clauses "opt:..." are Layer A, evaluated on what the real table holds:  *)
(* for every bucket and right context the best surviving score equals the  *)
(* best score offered - what the Viterbi optimum (C02) needs from this     *)
(* mechanism - and nothing is in the table that was never offered.         *)
(* Clauses "impl:..." compare the lists with the transcription entry by    *)
(* entry (extended specification; a different but equally good pruning     *)
(* would fail them without breaking C02, so they are reported as notes).   *)
(***************************************************************************)
EXTENDS Integers, Sequences, FiniteSets, TLC, Json, IOUtils

JTrace == ndJsonDeserialize(IOEnv.TRACE)
VARIABLES l, lists, offered, table, frame
Ev == JTrace[l]
H == INSTANCE HistoryDom WITH Buckets <- <<1, 2, 3>>, Ctx <- {1, 2, 3, 4}, Scores <- {}, MaxAdds <- 0, MaxFrames <- 0, Dev <- {},
                              lists <- lists, offered <- offered, table <- table, frame <- frame, nadds <- 0, last <- 0
vars == <<l, lists, offered, table, frame>>
Clause(name, cond) == IF cond THEN TRUE ELSE PrintT(<<"CLAUSE-FAILED", name, l>>) /\ FALSE

ToSet(s) == {s[i] : i \in DOMAIN s}
MaskSet(m) == {c \in 1..4 : (m \div (2 ^ (c - 1))) % 2 = 1}
ObsList(b) == [i \in DOMAIN Ev.lists[b] |-> [score |-> Ev.lists[b][i].score, rc |-> ToSet(Ev.lists[b][i].rc),
                                             frame |-> Ev.lists[b][i].frame, pred |-> Ev.lists[b][i].pred]]
ObsTable == [i \in DOMAIN Ev.table |-> [score |-> Ev.table[i].score, rc |-> ToSet(Ev.table[i].rc), frame |-> Ev.table[i].frame,
                                        pred |-> Ev.table[i].pred, b |-> Ev.table[i].b]]
Clean == /\ \A b \in 1..3 : \A i \in DOMAIN Ev.lists[b] : ~Ev.lists[b][i].stray /\ Ev.lists[b][i].lcok
                                                          /\ Ev.lists[b][i].to = (IF b = 3 THEN 2 ELSE 1)
         /\ \A i \in DOMAIN Ev.table : ~Ev.table[i].stray

(* Layer A on the observed lists *)
BestKeptObs(off) == \A b \in 1..3, r \in 1..4 :
                       H!BestKeptIn(ObsList(b), r) = H!MaxOf({e.score : e \in {o \in off[b] : r \in o.rc}})
OnlyOfferedObs(off) == \A b \in 1..3 : \A i \in DOMAIN ObsList(b) :
                          \E o \in off[b] : o.score = ObsList(b)[i].score /\ ObsList(b)[i].rc \subseteq o.rc

TInit == l = 1 /\ lists = [b \in 1..3 |-> <<>>] /\ offered = [b \in 1..3 |-> {}] /\ table = <<>> /\ frame = 0 /\ TLCSet(1, 0)

TNew == /\ Ev.e = "New"
        /\ lists' = [b \in 1..3 |-> <<>>] /\ offered' = [b \in 1..3 |-> {}] /\ table' = <<>> /\ frame' = 0
        /\ Clause("opt:new-table-is-empty", Ev.n = 0 /\ \A b \in 1..3 : Ev.lists[b] = <<>>)
TAdd == /\ Ev.e = "Add"
        /\ LET rc == MaskSet(Ev.mask)
               off == [offered EXCEPT ![Ev.b] = @ \cup {[score |-> Ev.score, rc |-> rc]}]
               L == H!Insert(lists[Ev.b], Ev.score, rc, frame, Ev.pred)
           IN /\ offered' = off
              /\ lists' = [lists EXCEPT ![Ev.b] = L]
              /\ Clause("opt:no-stray-context-bits-and-right-bucket", Clean)
              /\ Clause("opt:best-score-per-right-context-survives", BestKeptObs(off))
              /\ Clause("opt:only-offered-entries", OnlyOfferedObs(off))
              /\ Clause("opt:permanent-table-untouched-within-frame", ObsTable = table)
              /\ Clause("impl:lists-as-transcribed", \A b \in 1..3 : ObsList(b) = (IF b = Ev.b THEN L ELSE lists[b]))
        /\ UNCHANGED <<table, frame>>
TEndFrame == /\ Ev.e = "EndFrame"
             /\ LET T == table \o H!Flatten(<<1, 2, 3>>, lists)
                IN /\ table' = T
                   /\ Clause("opt:frame-lists-emptied", \A b \in 1..3 : Ev.lists[b] = <<>>)
                   /\ Clause("opt:table-keeps-earlier-entries", Len(ObsTable) >= Len(table) /\ SubSeq(ObsTable, 1, Len(table)) = table)
                   /\ Clause("opt:table-gains-exactly-the-survivors",
                             LET new == SubSeq(ObsTable, Len(table) + 1, Len(ObsTable))
                             IN \A b \in 1..3 : SelectSeq(new, LAMBDA e : e.b = b) = SelectSeq(H!Flatten(<<1, 2, 3>>, lists), LAMBDA e : e.b = b))
                   /\ Clause("impl:table-order", ObsTable = T /\ Ev.n = Len(T))
             /\ lists' = [b \in 1..3 |-> <<>>] /\ offered' = [b \in 1..3 |-> {}] /\ frame' = frame + 1

TNext == /\ l <= Len(JTrace)
         /\ (TNew \/ TAdd \/ TEndFrame)
         /\ l' = l + 1
         /\ TLCSet(1, l)
TSpec == TInit /\ [][TNext]_vars
Accepted == IF TLCGet(1) = Len(JTrace) THEN TRUE
            ELSE PrintT(<<"REJECTED-AT", TLCGet(1) + 1>>) /\ FALSE
=============================================================================
