"""Trace validation driver: concatenates recorded executions into one ndjson file, lets TLC run the
<X>Trace specification over it, and if TLC stops early isolates the execution that was rejected, then
carries on with the executions after it (so one failure does not hide the rest).

Convention shared by every *Trace.tla in /verif/specs:
  - the trace file is read from IOEnv.TRACE;
  - register 1 (TLCSet(1, n)) holds the number of lines consumed so far;
  - the POSTCONDITION prints  <<"REJECTED-AT", n>>  (1-based line of the first event that no action of
    the trace specification explains) when not every line was consumed.
"""
import os, re, tempfile
from . import tlc


class Failure:
    def __init__(self, exec_id, local_line, event, prev_event, clause=None):
        self.exec_id, self.local_line, self.event, self.prev_event = exec_id, local_line, event, prev_event
        self.clause = clause      # name printed by the trace spec's Clause(name, cond) operator, if it has one

    def __repr__(self):
        return "Failure(exec=%s line=%s event=%s)" % (self.exec_id, self.local_line, self.event[:200])


def _run_once(spec_dir, module, cfg, path, timeout, heap, dfs, env, lib=()):
    e = {"TRACE": path}
    if env:
        e.update(env)
    r = tlc.run(module, cfg, spec_dir, workers=1, timeout=timeout, env=e, heap=heap, dfs_queue=dfs, lib=lib)
    m = re.search(r'<<"REJECTED-AT", (\d+)>>', r.out)
    if m:
        return r, int(m.group(1))
    if "No error has been found" in r.out and r.rc == 0:
        return r, None
    raise tlc.ModelError("trace validation with %s did not finish cleanly:\n%s" % (module, r.out[-3000:]))


def validate(spec_dir, module, cfg, chunks, workdir, timeout=900, max_fail=6, heap="6g", dfs=False, env=None,
             prefix=(), lib=()):
    """chunks: list of (exec_id, [json lines]).  prefix: lines put at the top of every file (e.g. a
    global header).  Returns (n_accepted_execs, [Failure...], [TlcResult...])."""
    failures, results, accepted = [], [], 0
    todo = list(chunks)
    while todo:
        fd, path = tempfile.mkstemp(prefix="trace.", suffix=".ndjson", dir=workdir)
        starts, n = [], len(prefix)
        with os.fdopen(fd, "w") as f:
            for ln in prefix:
                f.write(ln.rstrip("\n") + "\n")
            for eid, lines in todo:
                starts.append(n)
                for ln in lines:
                    f.write(ln.rstrip("\n") + "\n")
                n += len(lines)
        r, rej = _run_once(spec_dir, module, cfg, path, timeout, heap, dfs, env, lib)
        results.append(r)
        os.unlink(path)
        if rej is None:
            accepted += len(todo)
            break
        # which execution holds (0-based) line rej-1 ?
        idx = 0
        for i, s in enumerate(starts):
            if s <= rej - 1:
                idx = i
        eid, lines = todo[idx]
        local = rej - 1 - starts[idx]
        # (TLC wraps long tuples over several lines when it prints them)
        cl = re.findall(r'<<\s*"CLAUSE-FAILED",\s*"([^"]+)",\s*(\d+)\s*>>', r.out)
        clause = next((c for c, ln in cl if int(ln) == rej), None)
        failures.append(Failure(eid, local + 1, lines[local] if local < len(lines) else "",
                                lines[local - 1] if local > 0 else "", clause))
        accepted += idx
        todo = todo[idx + 1:]
        if len(failures) >= max_fail:
            break
    return accepted, failures, results
