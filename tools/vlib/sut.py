"""Build the system under test (SoundSwallower) straight from /repo's working tree.

The library sources listed in /repo/src/CMakeLists.txt are compiled with clang + ASan (plus a few
UBSan checks) and assertions enabled into  /verif/build/<hash>/libss.a, where <hash> covers the
content of every file below /repo/src and /repo/include and the flags.  Nothing from /repo/_build is
used: config.h is generated here.  Harness programs are compiled and linked against that archive by
build_harness().
"""
import hashlib, os, re, subprocess, sys, time, fcntl, shutil, concurrent.futures

VERIF = os.path.dirname(os.path.dirname(os.path.dirname(os.path.abspath(__file__))))
REPO = os.environ.get("VERIF_REPO", "/repo")
BUILD = os.path.join(VERIF, "build")
GUARD = "SOUNDSWALLOWER_VERIF"

CONFIG_H = """#define HAVE_UNISTD_H
#define HAVE_STDINT_H
#define HAVE_SYS_TYPES_H
#define HAVE_SYS_STAT_H
#define HAVE_SNPRINTF
#define HAVE_POPEN
#define HAVE_GETRUSAGE
#define WORDS_BIGENDIAN 0
"""

VARIANTS = {
    # name: (compiler, flags)
    "asan": ("clang", ["-O1", "-g", "-fno-omit-frame-pointer", "-fsanitize=address",
                       "-fsanitize=bounds,null,object-size,vla-bound",
                       "-fno-sanitize-recover=bounds,null,object-size,vla-bound"]),
    "plain": ("clang", ["-O2", "-g"]),
}
COMMON = ["-DHAVE_CONFIG_H", "-D" + GUARD, "-D_CRT_SECURE_NO_DEPRECATE", "-w"]


class BuildError(Exception):
    pass


def _sources():
    txt = open(os.path.join(REPO, "src", "CMakeLists.txt")).read()
    m = re.search(r"set\(SOURCES(.*?)\)", txt, re.S)
    if not m:
        raise BuildError("cannot find SOURCES in src/CMakeLists.txt")
    return [s for s in m.group(1).split() if s.endswith(".c")]


def tree_hash(variant):
    h = hashlib.sha256()
    h.update(repr(VARIANTS[variant]).encode())
    h.update(repr(COMMON).encode())
    h.update(CONFIG_H.encode())
    for top in ("src", "include"):
        for root, dirs, files in os.walk(os.path.join(REPO, top)):
            dirs.sort()
            for f in sorted(files):
                if not f.endswith((".c", ".h", ".txt")):
                    continue
                p = os.path.join(root, f)
                h.update(os.path.relpath(p, REPO).encode())
                with open(p, "rb") as fh:
                    h.update(hashlib.sha256(fh.read()).digest())
    return h.hexdigest()[:16]


def _run(cmd, cwd=None):
    p = subprocess.run(cmd, cwd=cwd, stdout=subprocess.PIPE, stderr=subprocess.STDOUT, text=True)
    return p.returncode, p.stdout


def _prune(keep):
    """Keep the build cache bounded: remove all but the 24 most recently used builds, and never one
    used within the last two hours (another check may be running from it)."""
    try:
        ds = [os.path.join(BUILD, d) for d in os.listdir(BUILD) if os.path.isdir(os.path.join(BUILD, d))]
    except FileNotFoundError:
        return
    def mtime(d):           # another check may be building (renaming a temporary directory) or pruning at the same time
        try:
            return os.path.getmtime(d)
        except OSError:
            return time.time()
    ds.sort(key=mtime, reverse=True)
    for d in ds[24:]:
        if os.path.abspath(d) != os.path.abspath(keep) and time.time() - mtime(d) > 7200:
            shutil.rmtree(d, ignore_errors=True)


def build_lib(variant="asan"):
    """Return (dir, info) where dir holds libss.a and config.h for the current /repo tree."""
    os.makedirs(BUILD, exist_ok=True)
    hsh = tree_hash(variant)
    d = os.path.join(BUILD, "%s-%s" % (variant, hsh))
    lockf = open(os.path.join(BUILD, ".lock-%s-%s" % (variant, hsh)), "w")
    fcntl.flock(lockf, fcntl.LOCK_EX)
    try:
        lib = os.path.join(d, "libss.a")
        if os.path.exists(lib):
            os.utime(d, None)
            return d, {"cached": True, "hash": hsh, "wall_s": 0.0}
        t0 = time.time()
        shutil.rmtree(d, ignore_errors=True)
        os.makedirs(os.path.join(d, "obj"))
        with open(os.path.join(d, "config.h"), "w") as f:
            f.write(CONFIG_H)
        cc, flags = VARIANTS[variant]
        srcs = _sources()
        objs = []

        def comp(s):
            o = os.path.join(d, "obj", s.replace("/", "_")[:-2] + ".o")
            cmd = [cc] + flags + COMMON + ["-I", d, "-I", os.path.join(REPO, "src"),
                                          "-I", os.path.join(REPO, "include"),
                                          "-c", os.path.join(REPO, "src", s), "-o", o]
            rc, out = _run(cmd)
            return s, o, rc, out

        with concurrent.futures.ThreadPoolExecutor(max_workers=min(16, os.cpu_count() or 4)) as ex:
            for s, o, rc, out in ex.map(comp, srcs):
                if rc != 0:
                    shutil.rmtree(d, ignore_errors=True)
                    raise BuildError("compiling %s failed:\n%s" % (s, out[-4000:]))
                objs.append(o)
        rc, out = _run(["ar", "rcs", lib + ".tmp"] + objs)
        if rc != 0:
            raise BuildError("ar failed: " + out)
        os.rename(lib + ".tmp", lib)
        shutil.rmtree(os.path.join(d, "obj"), ignore_errors=True)
        _prune(d)
        return d, {"cached": False, "hash": hsh, "wall_s": round(time.time() - t0, 2)}
    finally:
        fcntl.flock(lockf, fcntl.LOCK_UN)
        lockf.close()


def build_harness(name, sources, libdir, variant="asan", wraps=(), extra=(), outdir=None):
    """Compile harness C sources (paths relative to /verif/harness) and link against libss.a.
    The binary is cached next to the library, keyed on harness source content."""
    cc, flags = VARIANTS[variant]
    h = hashlib.sha256()
    paths = [os.path.join(VERIF, "harness", s) for s in sources]
    deps = list(paths)
    cdir = os.path.join(VERIF, "harness", "common")
    for f in sorted(os.listdir(cdir)):
        deps.append(os.path.join(cdir, f))
    for p in deps:
        with open(p, "rb") as fh:
            h.update(fh.read())
    h.update(repr((wraps, extra)).encode())
    out = os.path.join(outdir or libdir, "%s-%s" % (name, h.hexdigest()[:12]))
    lockf = open(out + ".lock", "w")
    fcntl.flock(lockf, fcntl.LOCK_EX)
    try:
        if os.path.exists(out):
            return out
        cmd = [cc] + flags + COMMON + ["-I", libdir, "-I", os.path.join(REPO, "src"),
                                      "-I", os.path.join(REPO, "include"),
                                      "-I", os.path.join(VERIF, "harness", "common")]
        cmd += list(extra) + paths + [os.path.join(libdir, "libss.a"), "-lm", "-o", out + ".tmp"]
        for w in wraps:
            cmd.append("-Wl,--wrap=" + w)
        rc, o = _run(cmd)
        if rc != 0:
            raise BuildError("building harness %s failed:\n%s" % (name, o[-6000:]))
        os.rename(out + ".tmp", out)
        return out
    finally:
        fcntl.flock(lockf, fcntl.LOCK_UN)
        lockf.close()


if __name__ == "__main__":
    d, info = build_lib(sys.argv[1] if len(sys.argv) > 1 else "asan")
    print(d, info)
