"""Run harness binaries built against the SUT: always under a timeout, sanitizer exit codes made
recognisable (ASan 77, UBSan 78)."""
import os, subprocess, signal


class Run:
    def __init__(self, rc, out, err):
        self.rc, self.out, self.err = rc, out, err

    @property
    def sanitizer(self):
        return self.rc in (77, 78) or "ERROR: AddressSanitizer" in self.err or "runtime error:" in self.err \
            or "ERROR: LeakSanitizer" in self.err

    @property
    def crashed(self):
        return self.rc < 0 or self.rc in (124, 134, 139, 137) or self.sanitizer

    def why(self):
        if self.rc == 124:
            return "timeout"
        if "ERROR: AddressSanitizer" in self.err:
            i = self.err.index("ERROR: AddressSanitizer")
            return self.err[i:i + 1200].replace("\n", " | ")
        if "ERROR: LeakSanitizer" in self.err:
            i = self.err.index("ERROR: LeakSanitizer")
            return self.err[i:i + 1500].replace("\n", " | ")
        if "runtime error:" in self.err:
            i = self.err.index("runtime error:")
            return self.err[max(0, i - 120):i + 200].replace("\n", " | ")
        if "Assertion" in self.err:
            i = self.err.index("Assertion")
            return self.err[max(0, i - 150):i + 200].replace("\n", " | ")
        if self.rc < 0:
            return "signal %d" % -self.rc
        return "exit %d: %s" % (self.rc, self.err[-300:].replace("\n", " | "))


def run(binary, args=(), stdin=None, timeout=300, leaks=True, env=None, cwd=None):
    e = dict(os.environ)
    e["ASAN_OPTIONS"] = "exitcode=77:detect_leaks=%d:allocator_may_return_null=1:abort_on_error=0" % (1 if leaks else 0)
    e["UBSAN_OPTIONS"] = "halt_on_error=1:exitcode=78:print_stacktrace=1"
    e["LSAN_OPTIONS"] = "exitcode=77"
    if env:
        e.update(env)
    try:
        p = subprocess.run([binary] + list(args), input=stdin, stdout=subprocess.PIPE, stderr=subprocess.PIPE,
                           timeout=timeout, env=e, cwd=cwd, text=True, errors="replace")
        return Run(p.returncode, p.stdout, p.stderr)
    except subprocess.TimeoutExpired as ex:
        return Run(124, (ex.stdout or b"").decode(errors="replace") if isinstance(ex.stdout, bytes) else (ex.stdout or ""),
                   (ex.stderr or b"").decode(errors="replace") if isinstance(ex.stderr, bytes) else (ex.stderr or ""))


def crash_key(why):
    """A key for a crash that is stable across seeds/inputs: where it happened, not what was fed.
    assertion: crash:<file>:<function>:assert ; sanitizer: crash:<kind>:<top frame in the library> ; else crash:<signal>"""
    import re
    m = re.search(r"([\w./-]+\.c):\d+: (?:[\w \*]+? )?\**(\w+)\(.*?Assertion", why)
    if m:
        return "crash:%s:%s:assert" % (m.group(1).split("/")[-1], m.group(2))
    if "LeakSanitizer" in why:
        # where the first leaked block was allocated: first frame inside the library proper (not the allocator
        # wrappers, not the harness)
        fr = [x for x in re.findall(r"#\d+ 0x[0-9a-f]+ in (\w+) [^|]*?([\w.]+\.[cyl]):\d+", why)
              if not x[0].startswith("__") and "dec_drv" not in x[1] and "ckd_alloc" not in x[1] and x[0] != "main"]
        if fr:
            return "leak:%s:%s" % (fr[0][1], fr[0][0])
        return "leak:unknown-site"
    m = re.search(r"ERROR: (AddressSanitizer|LeakSanitizer): ([\w-]+)", why)
    if m:
        fr = re.search(r"#\d+ 0x[0-9a-f]+ in (\w+) [^\n|]*?/src/([\w/]+\.c)", why)
        if fr and not fr.group(1).startswith("__"):
            return "crash:%s:%s:%s" % (m.group(2), fr.group(2).split("/")[-1], fr.group(1))
        fr = [x for x in re.findall(r"#\d+ 0x[0-9a-f]+ in (\w+) [^\n|]*?/src/([\w/]+\.c)", why) if not x[0].startswith("__")]
        if fr:
            return "crash:%s:%s:%s" % (m.group(2), fr[0][1].split("/")[-1], fr[0][0])
        return "crash:%s" % m.group(2)
    m = re.search(r"runtime error: ([\w -]+)", why)
    if m:
        return "crash:ubsan:" + m.group(1).strip().replace(" ", "-")[:40]
    if "timeout" in why:
        return "crash:timeout"
    return "crash:" + why.split(":")[0].replace(" ", "-")[:30]
