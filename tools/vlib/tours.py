"""Turn a labelled state graph exported by TLC (lines  <<"EDGE", "<json>">>  printed from an
ACTION_CONSTRAINT) into a set of paths from the initial state that together take every edge at least
once ("one implementation test per transition")."""
import json, re, collections

_EDGE = re.compile(r'^<<"EDGE", "(.*)">>$')


def parse_edges(tlc_out):
    """Return list of (from, label_dict, to), de-duplicated, in first-seen order."""
    seen, edges = set(), []
    for line in tlc_out.splitlines():
        m = _EDGE.match(line)
        if not m:
            continue
        js = m.group(1).encode().decode("unicode_escape") if "\\" in m.group(1) else m.group(1)
        d = json.loads(js)
        key = (d["f"], json.dumps(d["a"], sort_keys=True), d["t"])
        if key in seen:
            continue
        seen.add(key)
        edges.append((d["f"], d["a"], d["t"]))
    return edges


def tours(edges, init, max_len=400, rng=None, strict=True):
    """Greedy edge cover: walk from `init`, always preferring an untaken edge, otherwise moving by a
    shortest path to the nearest state that still has one; start a new tour when max_len is reached
    or nothing is reachable.  Returns list of tours; a tour is a list of edge indices."""
    out = collections.defaultdict(list)
    for i, (f, a, t) in enumerate(edges):
        out[f].append(i)
    if rng:
        for f in out:
            rng.shuffle(out[f])
    untaken = set(range(len(edges)))
    pending = {f: [i for i in out[f]] for f in out}   # untaken edges per state (lazy cleaned)
    result = []

    def next_untaken(s):
        lst = pending.get(s, [])
        while lst and lst[-1] not in untaken:
            lst.pop()
        return lst[-1] if lst else None

    def path_to_untaken(s):
        # BFS over states, returns list of edge indices leading to a state with an untaken edge
        prev = {s: None}
        dq = collections.deque([s])
        while dq:
            u = dq.popleft()
            if u != s and next_untaken(u) is not None:
                path = []
                while prev[u] is not None:
                    e = prev[u]
                    path.append(e)
                    u = edges[e][0]
                return path[::-1]
            for e in out.get(u, []):
                v = edges[e][2]
                if v not in prev:
                    prev[v] = e
                    dq.append(v)
        return None

    while untaken:
        tour, s = [], init
        while len(tour) < max_len:
            e = next_untaken(s)
            if e is None:
                p = path_to_untaken(s)
                if p is None or len(tour) + len(p) >= max_len and tour:
                    break
                tour.extend(p)
                s = edges[p[-1]][2]
                continue
            untaken.discard(e)
            tour.append(e)
            s = edges[e][2]
        if not tour:
            break   # remaining edges unreachable from init (should not happen for a TLC graph)
        result.append(tour)
    if untaken and strict:
        # a TLC graph is connected from its initial state; edges left over mean the state labels are not canonical
        # (e.g. a function printed in construction order) and the "every edge" claim would be false
        from . import tlc
        raise tlc.ModelError("tours: %d of %d edges are unreachable from the initial state label (state labels not canonical?)"
                             % (len(untaken), len(edges)))
    return result
