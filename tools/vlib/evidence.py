"""Evidence files (/verif/evidence/<id>.json) and the known-findings triage."""
import json, os, time

VERIF = os.path.dirname(os.path.dirname(os.path.dirname(os.path.abspath(__file__))))


def load_findings():
    p = os.path.join(VERIF, "known_findings.json")
    if not os.path.exists(p):
        return []
    return json.load(open(p))["findings"]


class Report:
    """Collects what one check run covered, the violations it saw, and turns that into
    stdout lines + evidence + exit code."""

    def __init__(self, pid, tier, seed):
        self.pid, self.tier, self.seed = pid, tier, seed
        self.t0 = time.time()
        self.states = 0
        self.transitions = 0
        self.traces = 0
        self.evaluations = 0
        self.nontrivial = set()
        self.samples = []
        self.models = []          # per TLC run: dict(module,cfg,distinct,generated,wall_s)
        self.assumptions = []
        self.notes = {}
        self.rule = ""
        self.violations = []      # (key, what, replay_path)
        self.exhaustive = None

    def add_tlc(self, name, r, mode="exhaustive"):
        if mode != "trace-validation":      # states/transitions count model exploration only
            self.states += r.distinct
            self.transitions += r.generated
        self.models.append({"model": name, "mode": mode, "distinct_states": r.distinct,
                            "states_generated": r.generated, "depth": r.depth, "wall_s": r.wall_s})

    def sample(self, s, cap=6):
        if len(self.samples) < cap:
            self.samples.append(s)

    def violation(self, key, what, replay):
        self.violations.append((key, what, replay))

    def finish(self):
        """Print KNOWN-FINDING / VIOLATION lines, write evidence, return exit code."""
        findings = load_findings()
        open_keys = {f["key"]: f for f in findings if f["property"] == self.pid and f["status"] == "open"}
        known, fresh = {}, []
        for key, what, replay in self.violations:
            if key in open_keys:
                known.setdefault(key, (what, replay))
            else:
                fresh.append((key, what, replay))
        for key, (what, replay) in sorted(known.items()):
            print("KNOWN-FINDING: property=%s key=%s %s" % (self.pid, key, open_keys[key]["what"]))
        seen = set()
        for key, what, replay in fresh:
            if key in seen:
                continue
            seen.add(key)
            print("VIOLATION property=%s replay=%s" % (self.pid, replay))
            print("  key=%s %s" % (key, what))
        cov = {
            "states": self.states, "transitions": self.transitions,
            "traces_validated_against_impl": self.traces,
            "evaluations": self.evaluations,
            "distinct_nontrivial": len(self.nontrivial),
            "rule": self.rule,
            "samples": self.samples or ["(none)"],
            "models": self.models,
            "known_findings_seen": sorted(known.keys()),
        }
        if self.exhaustive is not None:
            cov["exhaustive"] = bool(self.exhaustive)
        cov.update({k: v for k, v in self.notes.items() if k not in cov})    # notes never overwrite the schema's keys
        ev = {"property_id": self.pid, "tier": self.tier, "seed": self.seed, "level": "model_checking",
              "coverage": cov, "assumptions": self.assumptions,
              "wall_s": round(time.time() - self.t0, 2), "violations": len(seen)}
        # Evidence under /verif/evidence always describes /repo itself: a run against another tree
        # ($VERIF_REPO, used for mutation and seeded-change experiments) writes elsewhere.
        alt = os.environ.get("VERIF_REPO")
        evdir = os.path.join(VERIF, "evidence")
        if alt and os.path.realpath(alt) != os.path.realpath("/repo"):
            evdir = os.path.join(VERIF, "work", "evidence-other-tree")
        os.makedirs(evdir, exist_ok=True)
        tmp = os.path.join(evdir, self.pid + ".json.tmp")
        with open(tmp, "w") as f:
            json.dump(ev, f, indent=1, sort_keys=True)
            f.write("\n")
        os.rename(tmp, os.path.join(evdir, self.pid + ".json"))
        return 1 if seen else 0
