"""Run TLC (always under a timeout, always with a private -metadir) and parse what it printed."""
import os, re, shutil, subprocess, tempfile, time

VERIF = os.path.dirname(os.path.dirname(os.path.dirname(os.path.abspath(__file__))))
JAR = "/opt/veriftools/tla/tla2tools.jar:/opt/veriftools/tla/CommunityModules-deps.jar"


class ModelError(Exception):
    """TLC could not run the model (parse error, timeout, crash): exit 2, never a VIOLATION."""


class TlcResult:
    def __init__(self):
        self.rc = None
        self.out = ""
        self.generated = 0
        self.distinct = 0
        self.depth = 0
        self.wall_s = 0.0
        self.violated = None      # name of violated invariant/property, or None
        self.error_trace = []     # list of state texts
        self.coverage = {}        # action name -> (taken, generated) when -coverage was given
        self.printed = []         # lines printed by PrintT (not TLC banners)

    @property
    def ok(self):
        return self.rc == 0


def run(module, cfg, cwd, workers=8, timeout=600, env=None, simulate=None, depth=None, seed=None,
        coverage=False, extra=(), heap="4g", deadlock=None, dfs_queue=False, keep_out=True, lib=()):
    """module: X.tla (relative to cwd); cfg: config file (relative to cwd)."""
    meta = tempfile.mkdtemp(prefix="tlc.", dir=_workdir())
    cmd = ["java", "-XX:+UseParallelGC", "-Xss512m", "-Xmx" + heap, "-DTLA-Library=" + os.pathsep.join([os.path.join(VERIF, "specs", "common")] + list(lib))]
    if dfs_queue:
        cmd.append("-Dtlc2.tool.queue.IStateQueue=StateDeque")
    cmd += ["-cp", JAR, "tlc2.TLC", "-noGenerateSpecTE", "-metadir", meta, "-workers", str(workers), "-config", cfg]
    if simulate:
        cmd += ["-simulate", "num=%d" % simulate]
        if depth:
            cmd += ["-depth", str(depth)]
    if seed is not None:
        cmd += ["-seed", str(seed)]
    if coverage:
        cmd += ["-coverage", "1"]
    if deadlock is False:
        cmd += ["-deadlock"]
    cmd += list(extra) + [module]
    e = dict(os.environ)
    e.pop("JAVA_TOOL_OPTIONS", None)
    if env:
        e.update({k: str(v) for k, v in env.items()})
    r = TlcResult()
    t0 = time.time()
    try:
        p = subprocess.run(["timeout", "-k", "10", str(timeout)] + cmd, cwd=cwd, env=e,
                           stdout=subprocess.PIPE, stderr=subprocess.STDOUT, text=True, errors="replace")
    finally:
        shutil.rmtree(meta, ignore_errors=True)
    r.wall_s = round(time.time() - t0, 2)
    r.rc = p.returncode
    r.out = p.stdout
    _parse(r)
    if r.rc in (10, 11, 12, 13) and not r.violated:
        r.violated = "tlc-exit-%d" % r.rc       # never let a non-zero verdict pass as "no violation"
    if r.rc in (124, 137):
        raise ModelError("TLC timed out after %ss on %s/%s" % (timeout, module, cfg))
    if r.rc not in (0, 10, 11, 12, 13):
        raise ModelError("TLC failed (rc=%s) on %s/%s:\n%s" % (r.rc, module, cfg, r.out[-3000:]))
    return r


def _workdir():
    d = os.path.join(VERIF, "work")
    os.makedirs(d, exist_ok=True)
    return d


_BANNER = re.compile(r"^(TLC2 Version|Running |Parsing file|Semantic processing|Starting\.\.\.|Computing initial|"
                     r"Computed \d|Finished computing|Progress\(|Model checking completed|The depth of|Finished in|"
                     r"Implied-temporal|Checking |Warning:|Error:|The behavior up|State \d+:|\d+ states generated|"
                     r"The coverage|End of statistics|<|  \||  line |Please run|To get|  calculated|  based on|"
                     r"The number of states generated|Simulation using|Generated \d|Linting|Picked up|"
                     r"\(If|Mode:|Resetting|An?\s|  which is|Checking temporal|Finished checking|"
                     r"which was|@!@!@|The average outdegree|Progress:|Back to state|"
                     r"/\\|  /\\|\s*$)")


def _parse(r):
    out = r.out
    m = None
    for m in re.finditer(r"(\d+) states generated, (\d+) distinct states found", out):
        pass
    if m:
        r.generated, r.distinct = int(m.group(1)), int(m.group(2))
    m = re.search(r"The number of states generated: (\d+)", out)
    if m and not r.generated:
        r.generated = int(m.group(1))      # simulation mode: behaviours, no distinct-state count
    m = re.search(r"The depth of the complete state graph search is (\d+)", out)
    if m:
        r.depth = int(m.group(1))
    m = re.search(r"Error: Invariant (\S+) is violated", out)
    if m:
        r.violated = m.group(1)
    m2 = re.search(r"Error: Action property (.+?) is violated", out) or \
        re.search(r"Error: Temporal properties were violated", out)
    if m2 and not r.violated:
        r.violated = m2.group(1) if m2.groups() else "temporal"
    if "Deadlock reached" in out and not r.violated:
        r.violated = "Deadlock"
    m3 = re.search(r"Error: The postcondition|Error: Evaluating assumption|Assumption .* is false", out)
    if m3 and not r.violated:
        r.violated = "Postcondition"
    # error trace
    r.error_trace = re.findall(r"^State \d+:.*?(?=^State \d+:|\Z|^\d+ states generated)", out, re.S | re.M)
    # coverage: "<Action line 12, col 1 to line 14, col 20 of module M>: 12:34"
    for m in re.finditer(r"^<(\w+) line \d+, col \d+ to line \d+, col \d+ of module (\w+)(?: \([\d ]+\))?>: (\d+):(\d+)", out, re.M):
        name = m.group(1)
        t, g = int(m.group(3)), int(m.group(4))
        old = r.coverage.get(name, (0, 0))
        r.coverage[name] = (old[0] + t, old[1] + g)
    r.printed = [l for l in out.splitlines() if l and not _BANNER.match(l)]


def sany(module, cwd, timeout=120):
    p = subprocess.run(["timeout", str(timeout), "java", "-DTLA-Library=" + os.path.join(VERIF, "specs", "common"), "-cp", JAR, "tla2sany.SANY", module], cwd=cwd,
                       stdout=subprocess.PIPE, stderr=subprocess.STDOUT, text=True)
    ok = p.returncode == 0 and "Semantic errors" not in p.stdout and "***Parse Error***" not in p.stdout \
        and "Fatal errors" not in p.stdout and "Could not" not in p.stdout
    return ok, p.stdout
