#!/usr/bin/env python3
"""tools/validate.py - validate MANIFEST.json and every evidence file against the schemas (run with python3-vt)."""
import glob, json, os, sys
import jsonschema
V = os.path.dirname(os.path.dirname(os.path.abspath(__file__)))
bad = 0
def chk(path, schema):
    global bad
    try:
        jsonschema.validate(json.load(open(path)), json.load(open(schema)))
    except Exception as e:
        bad += 1
        print("BAD", path, str(e)[:300])
chk(os.path.join(V, "MANIFEST.json"), "/root/.vp/MANIFEST.schema.json")
for f in sorted(glob.glob(os.path.join(V, "evidence", "C*.json"))):
    chk(f, "/root/.vp/EVIDENCE.schema.json")
man = json.load(open(os.path.join(V, "MANIFEST.json")))
ids = {c["property_id"] for c in man["checks"]} | {n["property_id"] if isinstance(n, dict) else n for n in man["not_applicable"]}
allp = {json.loads(l)["id"] for l in open(os.path.join(V, "properties.jsonl")) if l.strip()}
if ids != allp:
    bad += 1
    print("BAD manifest does not cover", sorted(allp ^ ids))
print("ok" if not bad else "%d problems" % bad)
sys.exit(1 if bad else 0)
