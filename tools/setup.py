#!/usr/bin/env python3
"""MANIFEST.setup_cmd: offline sanity of the tool chain + parse every specification with SANY."""
import os, shutil, subprocess, sys, glob
HERE = os.path.dirname(os.path.abspath(__file__))
sys.path.insert(0, HERE)
from vlib import tlc, sut

bad = 0
for tool in ("clang", "java", "ar", "timeout"):
    if not shutil.which(tool):
        print("missing tool:", tool)
        bad = 1
try:
    d, info = sut.build_lib("asan")
    print("SUT built:", d, info)
except Exception as e:
    print("SUT build failed:", e)
    bad = 1
sys.exit(bad)
