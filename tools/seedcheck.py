#!/usr/bin/env python3
"""tools/seedcheck.py <seed_dir> [--tier quick|thorough] [--keep-as NAME]

Confirms a seeded breaking change produced by an independent agent and runs our check against it.

  <seed_dir> holds patch.diff, demo.c, meta.json (property id in meta.json).
Steps, all in a scratch worktree of /repo outside /repo and /verif (removed afterwards):
  1. clean tree: cmake build, demo must exit 0;
  2. patch applied: builds, the 30 stable tests pass, demo must fail;
  3. our check for the property runs against the patched tree (VERIF_REPO) and must exit 1 with a VIOLATION.
Writes the outcome to <seed_dir>/confirm.json and, with --keep-as, copies the seed to /verif/seeded/<NAME>/.
"""
import argparse, json, os, shutil, subprocess, sys, tempfile, time

VERIF = os.path.dirname(os.path.dirname(os.path.abspath(__file__)))
STABLE = [t.split("::")[0] for t in json.load(open("/root/.vp/BASELINE.json"))["stable_pass"]]


def sh(cmd, cwd=None, timeout=1800, env=None):
    p = subprocess.run(cmd, cwd=cwd, stdout=subprocess.PIPE, stderr=subprocess.STDOUT, text=True, timeout=timeout, env=env)
    return p.returncode, p.stdout


def build(wt, bd):
    rc, out = sh(["cmake", "-G", "Ninja", "-S", wt, "-B", bd])
    if rc:
        return rc, out
    rc, out = sh(["cmake", "--build", bd])
    if rc:
        return rc, out
    targets = sorted({("test_case" if t[:5] in ("lcase", "ucase", "strcm") else t) for t in STABLE})
    return sh(["cmake", "--build", bd, "--target"] + targets)


def demo(wt, bd, seed):
    exe = os.path.join(bd, "seed_demo")
    rc, out = sh(["cc", '-DWT="%s"' % wt, "-I", os.path.join(wt, "include"), "-I", bd, "-I", os.path.join(wt, "src"),
                  os.path.join(seed, "demo.c"), os.path.join(bd, "libsoundswallower.a"), "-lm", "-o", exe])
    if rc:
        return None, "demo does not compile:\n" + out[-1500:]
    try:
        env = dict(os.environ)
        env["SS_ROOT"] = wt          # some demos take the source tree from $SS_ROOT, some from argv[1]
        rc, out = sh([exe, wt], cwd=wt, timeout=900, env=env)
    except subprocess.TimeoutExpired:
        return 124, "demo timed out"
    failed = rc != 0 or "FAIL" in out
    return failed, out[-800:]


def main():
    ap = argparse.ArgumentParser()
    ap.add_argument("seed")
    ap.add_argument("--tier", default="quick")
    ap.add_argument("--keep-as", default=None)
    ap.add_argument("--skip-confirm", action="store_true")
    a = ap.parse_args()
    seed = os.path.abspath(a.seed)
    meta = json.load(open(os.path.join(seed, "meta.json")))
    pid = meta["property"]
    res = {"property": pid, "at_repo_commit": sh(["git", "-C", "/repo", "log", "--format=%h", "-1"])[1].strip()}
    top = tempfile.mkdtemp(prefix="seedchk_")
    wt, bd = os.path.join(top, "wt"), os.path.join(top, "build")
    try:
        rc, out = sh(["git", "-C", "/repo", "worktree", "add", "--detach", wt, "HEAD"])
        if rc:
            raise SystemExit("worktree: " + out)
        if not a.skip_confirm:
            rc, out = build(wt, bd)
            if rc:
                raise SystemExit("clean build failed: " + out[-1500:])
            f, out = demo(wt, bd, seed)
            res["demo_passes_on_clean_tree"] = (f is False)
            res["demo_clean_output"] = out[-300:]
        rc, out = sh(["git", "-C", wt, "apply", os.path.join(seed, "patch.diff")])
        res["patch_applies"] = rc == 0
        if rc:
            res["apply_error"] = out[-500:]
        else:
            if not a.skip_confirm:
                rc, out = build(wt, bd)
                res["builds_with_patch"] = rc == 0
                if rc == 0:
                    rc, out = sh(["ctest", "--test-dir", bd, "-j8", "--timeout", "900", "-R", "^(" + "|".join(STABLE) + ")$"])
                    res["stable_tests_pass_with_patch"] = rc == 0 and ("tests failed out of %d" % len(STABLE)) in out and "100% tests passed" in out
                    f, out = demo(wt, bd, seed)
                    res["demo_fails_with_patch"] = (f is True or f == 124)
                    res["demo_patched_output"] = out[-300:]
            shutil.rmtree(bd, ignore_errors=True)
            env = dict(os.environ)
            env["VERIF_REPO"] = wt
            t0 = time.time()
            rc, out = sh([os.path.join(VERIF, "tools", "check"), pid, "--tier", a.tier], cwd=VERIF, env=env, timeout=7200)
            res["check_tier"] = a.tier
            res["check_exit"] = rc
            res["check_wall_s"] = round(time.time() - t0, 1)
            res["check_detected"] = rc == 1 and "VIOLATION property=%s" % pid in out
            res["check_output_tail"] = [l[:400] for l in out.splitlines() if l.startswith(("VIOLATION", "  key=", "KNOWN", "MODEL"))][:8]
    finally:
        sh(["git", "-C", "/repo", "worktree", "remove", "--force", wt])
        shutil.rmtree(top, ignore_errors=True)
        sh(["git", "-C", "/repo", "worktree", "prune"])
    json.dump(res, open(os.path.join(seed, "confirm.json"), "w"), indent=1)
    print(json.dumps(res, indent=1))
    ok = res.get("patch_applies") and (a.skip_confirm or (res.get("demo_passes_on_clean_tree") and res.get("stable_tests_pass_with_patch")
                                                           and res.get("demo_fails_with_patch")))
    if a.keep_as and ok:
        dst = os.path.join(VERIF, "seeded", a.keep_as)
        shutil.rmtree(dst, ignore_errors=True)
        os.makedirs(dst)
        for f in os.listdir(seed):
            if os.path.isfile(os.path.join(seed, f)):
                shutil.copy(os.path.join(seed, f), dst)
        m = json.load(open(os.path.join(dst, "meta.json")))
        m["confirmed"] = {k: v for k, v in res.items() if k not in ("check_output_tail",)}
        m["detected_by_check"] = res.get("check_detected")
        m["detection"] = res.get("check_output_tail")
        json.dump(m, open(os.path.join(dst, "meta.json"), "w"), indent=1)
        os.remove(os.path.join(dst, "confirm.json")) if os.path.exists(os.path.join(dst, "confirm.json")) else None
    sys.exit(0 if ok else 3)


if __name__ == "__main__":
    main()
