#!/usr/bin/env python3
"""Regenerates /verif/MANIFEST.json from the table below (kept here so the file is always valid)."""
import json, os
VERIF = os.path.dirname(os.path.dirname(os.path.abspath(__file__)))

CLAIMED = {
    "C20": dict(
        text="TLC proves exhaustively (4-5 model keys, 2 buckets, both case modes, unbounded history) that the "
             "transcription of hash_table.c (head slot + overflow chain, head deletion by copy) refines the map "
             "specification HashMap; the model's complete state graph is turned into edge tours that are executed on "
             "the real table with real colliding keys, and every recorded execution (tours + seeded random histories) "
             "is validated event by event by TLC against HashMap.",
        note="Trusted: TLC, the trace recorder harness/hash/hash_drv.c (logs results of public calls only), ASan build. "
             "Binary keys only on case-sensitive tables (documented restriction). Real-code coverage is the executed "
             "tours/histories, not all histories.",
        technique="TLA+ refinement (HashTableImpl => HashMap) checked by TLC; state-graph edge tours replayed on the real "
                  "table; TLC trace validation of recorded executions",
        design="4/C20"),
    "C01": dict(
        text="TLC checks exhaustively (8 grammar shapes incl. null chains, loops, unreachable final; every acoustic outcome "
             "and every pruning; small frame/history bounds, plus simulation at larger bounds) that the transcribed history "
             "table, one-step null propagation, word transitions, fsg_search_find_exit and backtrace only ever report "
             "sentences (final) / path prefixes (partial) of the user's grammar; the real decoder is then run over a seeded "
             "matrix of grammars x audio x beams x chunkings with partial and final queries and every recorded result is "
             "validated by TLC against the same Layer-A predicate using NFA acceptance of the user's grammar. Every word-exit history table the abstract search reaches (TLC export of FsgSearchAbs, about 14.7k tables over 8 grammar shapes; a seeded sample of 1.5-2k in the quick tier) is also written into a real search object with the library's own history functions, and the unchanged extraction code (find_exit, backtrace, segment iterator, lattice construction) runs on it; its results go through the same trace specification.",
        note="Trusted: TLC; the recorder harness/decoder/dec_drv.c; the user's grammar is the FSG returned by the public "
             "readers/compiler before the search adds silence/alternate arcs (JSGF semantics is C05); filler words are those "
             "flagged by the dictionary. Real-code coverage = the executed cases (160 quick / 2500 thorough per seed).",
        technique="TLA+ abstract token-passing search model checked by TLC (invariants = property predicates); TLC trace "
                  "validation of recorded decoder results against the property-level specification",
        design="4/C01"),
    "C03": dict(
        text="Same abstract search model: TLC checks that the transcribed segment construction (fsg_seg_bp2itor) tiles "
             "[0, last frame] with no gap/overlap, keeps null segments zero-length, and that segment scores sum to the path "
             "score, for every search outcome at the bounds; every recorded real result (partial and final) and every "
             "processing call's return value is validated by TLC: tiling, null markers, hypothesis = base forms of non-filler "
             "segments, score additivity, per-call frame counts and their sum against the front-end frame count formula. Every word-exit history table the abstract search reaches (TLC export of FsgSearchAbs, about 14.7k tables over 8 grammar shapes; a seeded sample of 1.5-2k in the quick tier) is also written into a real search object with the library's own history functions, and the unchanged extraction code (find_exit, backtrace, segment iterator, lattice construction) runs on it; its results go through the same trace specification.",
        note="Trusted: TLC; recorder; frames searched are counted by a linker wrap of acmod_score; the frame-count formula "
             "NF(samples) is the one established for the front end in C06 (FrameStream).",
        technique="TLA+ abstract search model checked by TLC; TLC trace validation of recorded segmentations, scores and "
                  "frame accounting",
        design="4/C03"),
    "C11": dict(
        text="fsg_search_lattice is transcribed as a function of the history table (node identity, one-null-step link "
             "rule, best-score link merge, start/end selection or synthesis, deletion of nodes not reaching the end) and "
             "composed with the abstract search model, so TLC checks the lattice predicate (one start/one end, acyclic, "
             "every node on a start-end path, node/link time consistency, every path a grammar path, first-best present) "
             "for the lattice of EVERY abstract search outcome at the bounds, mid-utterance and final; lattices dumped from "
             "the real decoder through the public node/link iterators over the decode matrix are validated by TLC against "
             "the same predicate, together with 'asking again returns the same object'. Every word-exit history table the abstract search reaches (TLC export of FsgSearchAbs, about 14.7k tables over 8 grammar shapes; a seeded sample of 1.5-2k in the quick tier) is also written into a real search object with the library's own history functions, and the unchanged extraction code (find_exit, backtrace, segment iterator, lattice construction) runs on it; its results go through the same trace specification.",
        note="Trusted: TLC; recorder; G = FSG before silence/alternate arcs; <s>/</s> nodes are synthetic. One genuine "
             "defect is recorded (known_findings.json: a first-best that is a single word instance from frame 0 is deleted "
             "from the lattice); the model carries the same named exception (KnownGap) and nothing else is excused.",
        technique="TLA+ transcription of the lattice builder over an abstract search model, checked by TLC; TLC trace "
                  "validation of dumped real lattices",
        design="4/C11"),
    "C12": dict(
        text="The A* N-best search (exact-heuristic agenda, path_insert with the MAX_PATHS cap, path_extend, astar_next) is "
             "transcribed and TLC runs it on every DAG with 4 (thorough: 5) nodes, all link-score assignments and all seed "
             "sets: hypotheses come out in non-increasing order, each is a start-to-end path, the first has the best-path "
             "score, nothing is lost without truncation. On lattices dumped from the real decoder TLC recomputes the exact "
             "max-plus best path and checks lattice_bestpath's path and score, N-best monotonicity, that every N-best / "
             "best-path word sequence is a start-to-end path of the dumped DAG, and posterior sanity (link and best-path "
             "posteriors <= 1, forward total = backward total) within the log-add rounding bound. The same predicates are "
             "evaluated on synthetic lattices: every DAG of the A* model (4 nodes x 3 scores; thorough also 5 nodes x 2 "
             "scores) is exported from TLC, built as a real lattice with the library's own constructors in place of the "
             "search's cached lattice, and searched through the public calls.",
        note="Trusted: TLC; recorder (alphas/betas/norm read from public lattice fields, backward total summed by the "
             "harness with logmath_add); tolerance 4 log units per link. No arbitrary DAG can be injected into the C code "
             "through the API, so the real-code side is bound by recorded lattices only.",
        technique="TLA+ transcription of A* checked by TLC on all small DAGs; TLC trace validation of best path, N-best and "
                  "posteriors of dumped real lattices",
        design="4/C12"),
    "C06": dict(
        text="TLC proves that the transcription of fe_process's overflow mechanism (overflow_append, read_overflow_frame, the "
             "shift loop, create_overflow_frame with its read behind the caller's pointer, append_overflow_frame, fe_end; two "
             "caller protocols) refines the frame-stream specification for 10 (Size,Shift) pairs, all chunk lengths to "
             "2*Size+Shift+1, output limits 0..3 and streams to 4*Size; chunk schedules generated by tlc -simulate on the same "
             "model with the REAL constants of each front-end configuration are executed on a real fe_t for three signals in "
             "int16 and float32, and TLC validates every recorded call against FrameStream: frames bit-identical to the "
             "one-call reference, NF(N) frames, every sample consumed once.",
        note="Bit-identity is relative to the same build (a change that alters all chunkings identically is invisible); float "
             "input is exactly int16/32768, dither off, one encoding per utterance; the caller re-submits handed-back samples "
             "and gives fe_end room for one frame. Trusted: TLC, ASan, harness/fe/fe_drv.c's memcmp. Three genuine defects "
             "were found and repaired (fix: c48a241, 64f3f4f, d54de6a).",
        technique="TLA+ refinement (FeChunkImpl => FrameStream) checked by TLC; model-generated chunk schedules replayed on the "
                  "real front end; TLC trace validation",
        design="4/C06"),
    "C14": dict(
        text="The JSON line of every result in the decode matrix (partial/final/empty, levels 0-2, offsets, frame rates 50/100/"
             "200, hostile dictionary spellings) is parsed by TLC with an RFC 8259 acceptor written in TLA+ (JsonSyntax) and "
             "compared field by field (text, start, duration, probability, nested word/phone/state lists, in integer "
             "thousandths) with what decoder_hyp, decoder_seg_iter and decoder_alignment report for the same result; its "
             "length is compared with the allocation. JsonSizeImpl model-checks the two-pass count/write bookkeeping for every "
             "result shape.",
        note="Trusted: TLC; recorder (view taken through the public iterators right after the JSON call; allocation size via a "
             "linker wrap of __ckd_calloc__); tolerance one thousandth for %.3f rounding; UTF-8 validity of spellings not "
             "demanded. Two genuine defects found and repaired (fix: 5428a9f escaping, 8b2df5f zero-word alignment).",
        technique="JSON acceptor and result comparison specified in TLA+, evaluated by TLC on recorded real outputs; TLA+ model "
                  "of the size bookkeeping checked exhaustively",
        design="4/C14"),
    "C19": dict(
        text="TLC proves for every small table satisfying the axioms (non-increasing, at most one per step) that the specified "
             "log-add is symmetric, bounded by max and max+T[0], has log-zero as identity and is monotone in each argument; "
             "TLAPS proves the same for arbitrary tables and integers (182 obligations, re-run by the check). Branch-by-branch "
             "transcriptions of logmath_add, of the logmath_log cast/shift and of the logmath_init table loops are checked "
             "against that specification. For each of 23-27 real configurations (4 bases x 4 shifts, base 1.00001, bases at "
             "the byte-width switches; widths 1/2/4) TLC validates the real table entry by entry against brackets of the exact "
             "logarithm and what logmath_add returns for EVERY difference d = 0..size+16 in both orders at several offsets, "
             "log-zero cases, seeded random pairs and log/exp round trips, clause by clause.",
        note="Trusted: TLC/tlapm; the harness's x87 long-double reference (log1pl/expl/logl), spot-checked against 60-digit "
             "decimal arithmetic; rounding allowance 2^-20 unit. Domain: integers >= logmath_get_zero() and < 2^30; p in "
             "[1e-300, 1e30]. use_table=0 is not covered; logmath_add_exact is diagnostic only. Two genuine defects found and "
             "repaired (fix: 3b690ea floor in logmath_log, 6ccf8dc table width).",
        technique="TLA+ refinement (LogAddImpl/LogConvImpl/LogTableImpl => LogAdd) checked by TLC with deviation switches and "
                  "negative controls; TLAPS proofs; exhaustive-over-d TLC trace validation of the real tables and sums",
        design="4/C19"),
    "C05": dict(
        text="For every grammar of the explored families (all one-rule grammars with <= 2 (thorough 3) leaves over {a, b, "
             "<NULL>, <VOID>, <s>} with one level of ( ) [ ] * +, two-rule reference graphs, undefined references, grammars "
             "without a public rule, seeded random grammars with <= 3 rules / 9 leaves / nesting 3, hand-written grammars; each "
             "in up to 10 spellings) compiled for real through jsgf_build_fsg, jsgf_build_fsg_raw, re-compilation, "
             "jsgf_read_string and decoder_set_jsgf_string, TLC recomputes the language (length <= 4) of the dumped FSG and the "
             "denotation of the JSGF AST with the shared Regular operators: equal, or a refusal of a grammar that may be refused; "
             "weights leaving every raw state sum to 1 within 110+n millionths and unique-token alternatives carry w_i/sum. TLC "
             "also proves the transcribed compiler mechanism (parser actions, expand_rule/expand_rhs, rule stack, recursion "
             "links, closure) has the property on 21k (quick) / 340k (thorough) enumerated grammars.",
        note="Bounded language equivalence k=4; at most one public rule per grammar; no imports; quoted tokens accepted with or "
             "without quotes; an empty-language rule may be refused or compiled to an empty grammar. Trusted: logmath_exp, "
             "fsg_model_arcs, the harness dump, the Python renderer (text = AST; its analysis is cross-checked in TLA+). Eight "
             "genuine defects found and repaired (fix: 40c15df, 24474a0, 5618e08, 42cd7d0, abd2df1).",
        technique="TLA+ JSGF denotation (JsgfSem) vs transcribed compiler (JsgfCompileImpl) checked by TLC over enumerated "
                  "grammars; every grammar compiled by the real library; TLC trace validation comparing languages",
        design="4/C05"),
    "C13": dict(
        text="TLC proves for every finite-state grammar of the model (<= 4 states, <= 5-6 arcs, null chains and cycles, "
             "duplicates, self-loops, unreachable states, weight upgrades between closures) that the closure loop as written, "
             "silence addition and alternate addition of fsg_model.c compute exactly the grammars their definitions give, and "
             "that those definitions keep the real-word language and the best log-prob of every sentence and are idempotent. "
             "Every (grammar state, call) edge of the model's graph is executed on the real API, plus enumerated and random "
             "grammars (<= 10 states, <= 30 arcs, lw 1.0 and 6.5, > 32 words) and grammars handed to a decoder; after every call "
             "TLC validates the dumped arcs against the definitions, exact best log-probs for sentences <= 4 words, idempotence, "
             "and write-then-read identity at the printed precision.",
        note="Trusted: FsgAbs's definitions; hash-iteration order abstracted; pn computed with libm; an independent parser of "
             "the file format in the harness; k=4 on traces, k=3 in models; weights <= 0, lw >= 1. Three genuine defects found "
             "and repaired (fix: 1933693, 46ca299). Observations not claimed by C13: fsg_search.c never adds a self-loop for the "
             "last filler word; JSGF weights are not scaled by lw.",
        technique="TLA+ refinement (FsgModelImpl => FsgAbs) checked by TLC; state-graph edge tours replayed on the real API; TLC "
                  "trace validation with named predicates",
        design="4/C13"),
    "C15": dict(
        text="TLC proves exhaustively that the property's sentences (exact excerpts, order, no gaps or overlap, start/end rules, "
             "times, end of stream) hold for the FIFO specification EndpointerAbs, and that the index-level transcription of "
             "ps_endpointer.c (ring arrays, push/pop/speech count/linearize/end_stream) refines it and never leaves the ring, "
             "for windows 3-6, every admissible threshold pair, streams <= 18 frames and end_stream at every point with 0/1/"
             "full trailing frame. The real library is driven with scripted decisions (linker wrap of vad_classify) on ALL "
             "decision sequences <= 10 (quick) / 13 (thorough) x end points on 8 real small-window configurations, on edge "
             "tours of the Layer-A graph of the default and a 44.1 kHz configuration, on seeded long sequences, and with the "
             "real WebRTC classifier on bundled audio; every call is validated by TLC against EndpointerAbs (frame identity by "
             "memcmp, in_speech, speech_start/speech_end, out_nsamp).",
        note="Trusted: TLC, the recorder harness/endpointer/ep_drv.c (public API only), ASan. Thresholds are the initialiser's "
             "integers; times compared within 1e-9 s; reuse after end_stream out of scope. One genuine defect found and "
             "repaired (fix: ep_speech_count overrun).",
        technique="TLA+ refinement (EndpointerImpl => EndpointerAbs) and history predicates checked by TLC; exhaustive decision "
                  "sequences and state-graph edge tours replayed on the real library via linker wrap; TLC trace validation",
        design="4/C15"),
    "C04": dict(
        text="TLC runs the transcribed backtrace of state_align_search_finish and alignment_propagate on every best path the "
             "constrained second pass can deliver (every monotone state sequence through 1-3 words x 1-2 phones x 2-3 states "
             "inside the words' windows, arbitrary frame scores): every state gets a start, a positive duration and a score, "
             "levels are contiguous from frame 0, words keep the imposed boundaries, every frame's score is attributed exactly "
             "once (the pre-fix variant violates this, as a negative control). Alignment trees recorded through the public "
             "iterators over the decode matrix (final and partial results, streaming, buffered search, default / compallsen / "
             "open-beam configurations) are validated by TLC against AlignPred together with the first-pass segmentation of "
             "the same result: same words, starts and durations; phones = dictionary pronunciation; states = the phone's "
             "emitting states; children partition parents; parent score = sum of children; word score = acoustic part of the "
             "first-pass segment score (equality with beams open, >= otherwise).",
        note="The word-score clause is evaluated only with compallsen=yes, and not for the last word of a result nor for "
             "one-phone real words (the two passes use different context models there by design). The Viterbi recursion of "
             "the second pass is abstracted in the model (any valid path). Trusted: TLC, recorder, dictionary/model-definition "
             "lookups. Five genuine defects found and repaired (fix: f6619c0, 0280554, a166ee0, 28a29a5, 8b2df5f) plus the "
             "lextree fix 45754d6 this clause depends on.",
        technique="TLA+ transcription of the alignment backtrace checked by TLC over all paths; TLC trace validation of recorded "
                  "alignment trees against the property-level specification",
        design="4/C04"),
    "C07": dict(
        text="The cepstrum ring (two-part writes and reads), the live feature ring (first/last frame replication, 'only consume "
             "what fits'), the growing feature buffer, the utterance state machine and the decoder's process/search loop are "
             "transcribed with indices in place of numbers; TLC checks for every split of the cepstra over process calls "
             "(including calls that yield none), every placement of buffered calls and the end of the utterance that the search "
             "is fed exactly the canonical windows 0..N-1 of FeatStream (the pre-fix STARTED handling violates this, as a "
             "negative control). On the real decoder each execution runs a one-call reference and 3-4 variants of the same "
             "audio with the same CMN state on fresh decoders - single samples to pieces around one window / the 128-frame "
             "cepstrum buffer / the 256-frame live ring, buffered pieces, int16/float32, interleaved result / lattice / partial "
             "alignment / JSON queries - and TLC validates that every final hypothesis, segmentation with scores, path score, "
             "alignment tree and frame count equals the reference's and that the frame-count formula holds. A second model, FeatValues, states what each dynamic-feature frame holds for the six feature types; integer-valued cepstra go through the real feat_s2mfc2feat_live in pieces and TLC compares every number (frame count: C07; values: extended specification, reported as notes).",
        note="grow_feat = TRUE (the default) is modelled; ring-mode feat_buf is not. CMN is fixed with decoder_set_cmn, audio "
             "< 300 frames; full_utt (batch CMN) is not compared with streaming. Trusted: TLC, recorder. One genuine defect "
             "found and repaired (fix: 1dde7cd); the FE frame loss reachable through acmod was repaired under C06 (64f3f4f).",
        technique="TLA+ transcription of the feature pipeline checked by TLC against FeatStream; chunk schedules executed on the "
                  "real decoder next to a reference; TLC trace validation of result equality",
        design="4/C07"),
    "C08": dict(
        text="SessionImpl models one or two live decoder instances with the hidden state the code carries across utterances "
             "(stored CMN mode, live feature ring, scorer state, running CMN sums, dynamically narrowed beams, and process-wide "
             "state shared by decoders with different acoustic models) and a result function that reads hidden state where the code "
             "does; TLC checks that in the intended design hidden state never reaches a result (functional dependency of the "
             "result on configuration, grammar, dictionary, CMN state at the start, audio; no CMN argument in batch mode) and "
             "that the pre-fix code and four other ways of leaking violate it (negative controls run by the check). Every edge of the model's state graph - new / free / "
             "grammar switch / set_cmn / begin streaming or batch utterance / end, interleaved on two instances - is executed on "
             "the real library in three audio mappings (including an utterance shorter than one analysis window), plus a fresh "
             "decoder per tuple and 'ask again' cases; TLC files every final AND mid-utterance hypothesis, segmentation with "
             "scores, alignment and lattice under its tuple - CMN state read back from the decoder - and requires equal tuples "
             "to have equal results across all histories, instances and repeated questions. Every result is filed a second "
             "time under its instance's history since the CMN state was last replaced (so the second utterance after a reset "
             "is compared too). Directed families: the same utterances after complete and partial set_cmn vectors on fresh and "
             "used decoders; maxhmmpf with utterances cut off while the search is throttled (cut-point sweep); the same "
             "streamed utterance 256 times in a row (every alignment against the 256-slot feature ring); two decoders with the "
             "English and the French model in one process in both orders, one process per case.",
        note="Two grammars (+ fan-out, loop and French ones), audio excerpts of 0.1-2.8 s, one fixed streaming schedule (chunk invariance is "
             "C07). Trusted: TLC, recorder. Two genuine defects found and repaired (fix: 3d7fa79 sticky CMN mode, a94a4c9 "
             "active senone list in the second pass).",
        technique="TLA+ model of cross-utterance hidden state checked by TLC (functional dependency, negative control); "
                  "state-graph edge tours replayed on real decoder instances; TLC trace validation of the dependency over all "
                  "executions",
        design="4/C08"),
    "C09": dict(
        text="The documented calling protocol is written as a TLA+ state machine (ApiImpl: utterance state x grammar loaded x "
             "audio fed x references held) that gives the documented return class of every call in every state, including "
             "out-of-order calls, documented-bad arguments (bad / undefined / no-public JSGF, unknown words, duplicate / empty "
             "/ bad-phone / baseless-alternate words), abandoned segment / N-best / lattice-link / alignment iterators, "
             "retained lattices and decoders, re-initialisation, releasing the last reference in EVERY state (in mid-utterance "
             "too), a lattice the caller keeps with lattice_retain beyond the utterance, the grammar, a re-initialisation and "
             "the decoder itself and then uses and releases, posterior pruning of a lattice followed by further use, "
             "empty-string arguments. TLC exports the complete graph; tours taking every (state, "
             "call) edge plus seeded random walks through the same graph are executed on the real library, one process per tour, under ASan + LeakSanitizer with assertions "
             "enabled; a crash, sanitizer report, failed assertion or leak is a violation keyed by where it happened. TLC "
             "validates that every call returned the documented class and that a fixed probe utterance at the end of every "
             "tour gives the same result in every execution (the decoder is still usable and unchanged). Failing "
             "configurations (unknown-word FSG, missing files) must fail cleanly. config_* calls have their own model "
             "(ConfigStore/ConfigImpl: a typed store with the documented coercions, reference count, JSON update and "
             "serialisation; TLC checks typing, refused-calls-change-nothing and the JSON round-trip laws): every edge of its "
             "graph plus seeded random histories on the harness's and the standard parameter table run one process each under "
             "ASan+LSan, and ConfigTrace checks every answer and the whole store after every call (return-class clauses count "
             "for C09; value-semantics mismatches are reported as notes).",
        note="Grammar loading, word addition and re-initialisation are only issued between utterances. Memory safety, "
             "assertions and leaks are observed by the sanitizers, not by the specification. Trusted: TLC, recorder, ASan/LSan. "
             "Genuine defects found and repaired: 16f80b1, 2630811, de33ce4, 79da85f, d90f525, 3be204a, df6e362, 2fdac7b (and, "
             "found by other checks' matrices: ea60103, 8b2df5f, a166ee0); one open finding: the bison parser leaks on JSGF "
             "syntax errors.",
        technique="TLA+ protocol state machine; state-graph edge tours replayed on the real library under sanitizers; TLC "
                  "trace validation of return classes and of a probe result",
        design="4/C09"),
    "C02": dict(
        text="ViterbiNet.tla defines the decoding network declaratively - for every word arc of the search's grammar the chain "
             "of 3-state HMMs with the left/right-context models taken from the dict2pid / model-definition tables, context-"
             "independent fillers, one-phone words, one-step null propagation over the closed grammar, insertion penalties and "
             "arc log-probabilities - and the exact max-plus recursion over it; none of the lextree, active lists or history "
             "pruning is in it. TLC runs the recursion on a synthetic network for every frame-cost assignment (bounds, "
             "achievability, zero-cost optimum) and, per recorded decode, over the real network tables and the senone scores "
             "the scorer produced for every frame (linker wrap of acmod_score): with beams opened the decoder's reported path "
             "score must EQUAL the optimum (and a path is found iff one exists), with default/narrow beams it must not exceed it. "
             "Grammar shapes: branching into and out of states with differing neighbouring phones, one-/two-/three-phone words, "
             "fillers, null chains, loops, alternates, weights, random JSGF and FSG; audio excerpts of 6-120 frames (thorough: "
             "also the full 278-frame recording); words added at run time with pronunciations no dictionary word prepared "
             "the context tables for. The mechanism the property names 'history entry insertion keeps only entries not "
             "dominated on score and right-context set' has its own model (HistoryDom: the list discipline transcribed, "
             "Layer A = per bucket and right context the best offered score survives; negative control = subtraction using "
             "the wrong machine word): every edge of its graph and seeded random frames are executed on the real table "
             "through fsg_history_entry_add / fsg_history_end_frame under several mappings of contexts to bit positions, and "
             "HistoryTrace evaluates Layer A on the real lists after every call. The per-frame update of one phone model "
             "(hmm.c) has its own model too (HmmSem/HmmStep): Layer A is path semantics (paths with entry identities moving "
             "along the transitions that exist; a state shows the best score, the identity of a best path and its senone "
             "sequence), Layer B the 3-state, multiplexed and general-topology routines transcribed; TLC checks it for every "
             "left-to-right 3-state topology and every order of enter/evaluate/clear/normalise, the routine as it was is the "
             "negative control; every edge of the exported graphs and seeded random histories at real magnitudes (2-5 states, "
             "plain and multiplexed) run on the real object and HmmTrace evaluates Layer A on every call.",
        note="The (phone, left, right, position) -> senone-sequence lookup is taken from the model definition "
             "(bin_mdef_phone_id_nearest), not from the dict2pid tables or the lextree; how "
             "the models are wired into the search is what is checked. Decoder conventions are stated in the module (one-phone "
             "words take silence as right context; the last word may use any right context possible at its exit state). With "
             "pruning, a result that does not reach the last frame is not compared. Trusted: TLC, recorder. One genuine defect "
             "found and repaired (fix: 45754d6 lextree roots); reverting it is detected. A second one in the 3-state HMM update "
             "(fix: 605c312, stale skip candidate) found by TLC on HmmStep and reproduced on the real object.",
        technique="explicit TLA+ specification of the Viterbi optimum evaluated by TLC on recorded networks and frame scores "
                  "(trace validation against an exact oracle); TLC model checking of the recursion on a synthetic network, of the "
                  "transcribed history-table discipline and of the transcribed per-model Viterbi update, each bound to the real "
                  "code by graph-edge tours and TLC trace validation",
        design="4/C02"),
    "C16": dict(
        text="TLC proves exhaustively that the transcription of decoder_add_word / dict_add_word / dict2pid_add_word "
             "(reallocation growth, slot written before the decision, base lookup, alternate link, hash registration, lazy "
             "context tables, search re-initialisation) refines the append-only dictionary specification DictAbs and keeps "
             "hash/chain/table invariants. Quick: 8 spellings incl. the empty one, x(, a(2), a(3), A x 4 pronunciations incl. "
             "empty, unknown and one-letter phones, <= 3 words; thorough: 11 x 5, <= 4; 6 spellings to exhaustion; both case "
             "modes; update on/off; grammar loads. Each of the four historical defects sits behind a named deviation switch "
             "that must break its invariant. The model's complete state graph is turned into edge tours executed through "
             "decoder_add_word on a real decoder together with per-class probes, seeded random histories, runs growing the "
             "table past S3DICT_INC_SZ and runs using the new words (JSGF, alignment text, decode of goforward.raw). After "
             "every call the return value and lookup, id, pronunciation, spelling, base and alternate links of every "
             "spelling in play are recorded and validated event by event by TLC against DictAbs.",
        note="Trusted: TLC; the recorder harness/dict/dict_drv.c (public API results and public struct fields of decoder_s / "
             "dict_s only); the FNV digest of the initially loaded entries computed by the recorder; the ASan build. "
             "Assumptions: spellings have at most one trailing parenthesised suffix; the case mode is read from dict_t.nocase; "
             "a JSGF grammar naming an absent word is not loaded (its failure path belongs to C09); a hypothesis is demanded "
             "only for sentences whose pronunciations concatenate to the audio's phones; real-code coverage is the executed "
             "tours and histories, not all histories; a Python replica of DictAbs names violation keys and plans inputs but "
             "never decides a violation. Four genuine defects found and repaired (fix: 951b2a3, b0a77d4, 25817f0).",
        technique="TLA+ refinement (DictImpl => DictAbs) with named deviation switches, checked by TLC; state-graph edge "
                  "tours, probes, random histories and growth/use runs replayed on a real decoder, one process per execution; "
                  "TLC trace validation of every recorded execution",
        design="4/C16"),
}

PENDING = "not built yet in this round (planned, see DESIGN.md section 4); no check is registered, so nothing is claimed"
CLAIMED["C17"] = dict(
    text="The model file formats are written as a TLA+ specification (MFBytes/MFFormats: byte-level readers for the s3 "
         "container with byte-order word and checksum, means/variances, transition matrices, mixture weights, feature "
         "transform, the senone dump's string format, the binary model definition; Loadable3 follows acmod_load_am's order "
         "and the ptm / s2_semi / ms cascade and answers: still a model, must be refused, or cannot tell from the bytes "
         "shown). MFWrite writes four miniature but complete models byte by byte; MFDamage derives from the field list the "
         "reader itself returns every truncation length, file missing / extended, seven corruption classes of every count, "
         "dimension and length, byte-order and header damage, checksum and data bit flips, well-formed sibling files of "
         "other dimensions. TLC enumerates all 5011 cases (ModelInit, 10k states; invariants: the instances are models and "
         "are read to their last byte, every proper prefix is refused, nothing is undecided on fully known files) and the "
         "cases for the two bundled models (every header byte, +-3 bytes around every field and array boundary, first and "
         "last bytes, seeded random lengths). The real decoder_init() runs on every case in its own process under ASan + "
         "UBSan + LSan with assertions, with the library's mmap and with a link-time wrap of mmio_* that gives it a heap "
         "block of exactly the file's length; afterwards the same process loads the intact model and decodes. ModelTrace "
         "re-derives the verdict from the bytes the library was given and checks must-refuse, intact-loads, "
         "intact-announces (dimensions, GMM module), intact-decodes.",
    note="Memory errors, double frees and leaks are observed by the sanitizers; the specification decides which damages exist, "
         "which verdict each gets, and what an intact reload must show. A process ended by the library's own E_FATAL / "
         "allocation-failure exit while reading the damaged directory counts as reporting failure (listed as NOTE lines). "
         "'Must refuse' is claimed only for rules a loader checks or the formats' embedded descriptions state. The heap "
         "back end stands for 'without memory mapping' (the configuration parameter mmap is not read by this version). "
         "Payload corruption outside a checksum is out of scope. Ten defect sites found on the pinned tree (about 20 keys) "
         "were repaired by eight fix: commits (c1db1dc .. 4e5a9d5).",
    technique="file formats as a TLA+ specification (byte-level readers and writers, exhaustive damage enumeration with "
              "prefix and round-trip invariants checked by TLC); the derived cases executed on the real loaders under "
              "sanitizers; TLC trace validation of every execution against the format specification",
    design="I.3/C17")

CLAIMED["C10"] = dict(
    text="The text input formats are the specification: TextFormats.tla reads, byte by byte, the FSG text format, the "
         "pronunciation dictionary, JSON configuration strings (RFC 8259 acceptor of JsonSyntax + the typed parameter "
         "table), alignment text, a word/pronunciation pair and the CMN text, and returns a three-valued verdict (valid "
         "with the abstract value it denotes / no conforming reader can make an object of it / the documentation does not "
         "say) plus the list of fields it consumed; TextDamage.tla derives the damages from that field list (truncation at "
         "every byte, field and line deletion / duplication / swap, every number replaced by 20 edge texts such as 1e999, "
         "twenty nines, -1, NaN, 2^31, 2^32+1, hostile bytes incl. NUL / 0xFF / ESC at every field, CR-LF, no final "
         "newline, long fields of 300 / 5000 / 70000 bytes and nesting 200 / 100000 deep as descriptions); TLC enumerates "
         "all 5767 (instance, damage) cases of 19 instances, checks eleven theorems about the readers (instances valid and "
         "read to the last field, truncated FSG never valid, out-of-range numbers never valid, ...) and exports the cases. "
         "Each case runs in its own forked child of the real library under ASan + UBSan + LSan with assertions on, files "
         "served from a heap block of exactly the file's length, through the public entry point of its format "
         "(fsg_model_readfile, dict_init, config_parse_json, decoder_set_align_text, decoder_add_word, decoder_set_cmn, "
         "decoder_set_jsgf_string); the returned object is dumped through public accessors, USED (grammar written out, set "
         "in a decoder and decoded with; dictionary looked up; configuration read back and serialised) and freed; the "
         "parent records how the child ended (ok / exit / abort / signal / sanitizer / time-out, time-outs re-run alone). "
         "TextTrace.tla re-reads the recorded bytes with the same readers and checks: ended-normally, valid-accepted and "
         "valid-value (a valid input yields an object equal to the specification's value - what binds the format "
         "specification to the code), well-formed (whatever object is returned for any input satisfies its type "
         "invariant), used-and-freed. 400 seeded unstructured byte strings per run go through the same clauses.",
    note="A failure return is always accepted for damaged input (the property allows both outcomes); 'invalid' verdicts "
         "are notes only. Where the documentation is silent the verdict is 'unknown' and only the safety clauses apply "
         "(relaxed key:value configuration, keyword prefixes, non-printable bytes). Alignment text and JSGF have no value "
         "binding here (JSGF semantics is C05). Leaks are notes here (C09's subject). Memory errors, exits and hangs are "
         "observed by the sanitizers and the parent process, not by TLC; the specification contributes the inputs, the "
         "verdicts and the value / type-invariant oracles. Six genuine defects found and repaired (fix: 4495711 a661e87 "
         "81ef972 a39c4f3 6398584 da63213). Inputs longer than 700 bytes get no verdict; only the en-us model; "
         "jsgf_parse_file / imports, filler dictionaries and config_set_str outside JSON are not covered.",
    technique="TLA+ byte-level specification of the input formats with exhaustive damage derivation checked by TLC "
              "(TextInit); one forked sanitizer-instrumented child of the real library per exported case; TLC trace "
              "validation (TextTrace) of every recorded execution against the format readers",
    design="I.3/C10")

NOT_APPLICABLE = {
    "C18": "finiteness/range of floating-point signal processing values; TLC has no reals and the property is about "
           "numeric values, not state or order (DESIGN.md section 6)",
}


def main():
    ids = [json.loads(l)["id"] for l in open(os.path.join(VERIF, "properties.jsonl"))]
    checks, na = [], []
    for i in ids:
        if i in CLAIMED:
            c = CLAIMED[i]
            checks.append({
                "property_id": i,
                "quick_cmd": "tools/check %s --tier quick" % i,
                "thorough_cmd": "tools/check %s --tier thorough" % i,
                "evidence_file": "/verif/evidence/%s.json" % i,
                "replay_cmd_template": "tools/check %s --replay {path}" % i,
                "engine": "tlc+harness",
                "level_claimed": {"category": "model_checking", "text": c["text"], "design_ref": "DESIGN.md section " + c["design"]},
                "level_note": c["note"],
                "technique": c["technique"],
            })
        else:
            na.append({"property_id": i, "reason": NOT_APPLICABLE.get(i, PENDING)})
    m = {
        "version": 1,
        "setup_cmd": "python3 tools/setup.py",
        "hooks": {
            "guard": "SOUNDSWALLOWER_VERIF",
            "enable": "checks compile /repo/src directly with clang -fsanitize=address -DSOUNDSWALLOWER_VERIF "
                      "(tools/vlib/sut.py); no source hooks exist: observation uses public structs and linker --wrap",
            "baseline_off_cmd": "python3 tools/baseline_off.py",
            "source_commits": [],
            "add_only": True,
        },
        "engines": [{"name": "tlc+harness", "path": "tools/check",
                     "serves_properties": sorted(CLAIMED),
                     "kind_free_text": "explicit TLA+ specifications checked by TLC; C harnesses replay spec-generated "
                                       "behaviours on the real library and record traces that TLC validates against the "
                                       "property-level specification"}],
        "checks": checks,
        "not_applicable": na,
        "notes": "Model failure (build/TLC error/timeout) exits 2 and never prints VIOLATION. known_findings.json lists "
                 "genuine defects recorded rather than repaired.",
    }
    with open(os.path.join(VERIF, "MANIFEST.json"), "w") as f:
        json.dump(m, f, indent=1)
        f.write("\n")


if __name__ == "__main__":
    main()
