#!/usr/bin/env python3
"""MANIFEST.hooks.baseline_off_cmd: build the repository's own CMake tree with the guard OFF in a scratch
directory outside /repo and /verif, run the stable tests from /root/.vp/BASELINE.json, remove the scratch."""
import json, os, shutil, subprocess, sys, tempfile
stable = [t.split("::")[0] for t in json.load(open("/root/.vp/BASELINE.json"))["stable_pass"]]
d = tempfile.mkdtemp(prefix="ss_baseline_")
rc = 1
try:
    subprocess.check_call(["cmake", "-G", "Ninja", "-S", "/repo", "-B", d], stdout=subprocess.DEVNULL)
    subprocess.call(["cmake", "--build", d], stdout=subprocess.DEVNULL)
    subprocess.call(["cmake", "--build", d, "--target"] + sorted({("test_case" if t[:5] in ("lcase", "ucase", "strcm") else t) for t in stable}),
                    stdout=subprocess.DEVNULL)
    p = subprocess.run(["ctest", "--test-dir", d, "-j8", "--timeout", "900", "-R", "^(" + "|".join(stable) + ")$"],
                       stdout=subprocess.PIPE, stderr=subprocess.STDOUT, text=True)
    print(p.stdout[-3000:])
    rc = 0 if p.returncode == 0 and ("100%% tests passed, 0 tests failed out of %d" % len(stable)) in p.stdout else 1
finally:
    shutil.rmtree(d, ignore_errors=True)
sys.exit(rc)
