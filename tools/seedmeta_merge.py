#!/usr/bin/env python3
"""Merge the confirmation of a seeded change (first, full seedcheck run: /tmp/seed_out/<id>.log) with the latest
detection result (a later run with --skip-confirm) into /verif/seeded/<id>/meta.json."""
import json, os, re, sys, glob
V = os.path.dirname(os.path.dirname(os.path.abspath(__file__)))
for d in sorted(glob.glob(os.path.join(V, "seeded", "*"))):
    sid = os.path.basename(d)
    mp = os.path.join(d, "meta.json")
    if not os.path.exists(mp):
        continue
    m = json.load(open(mp))
    conf = m.get("confirmed", {})
    if "demo_fails_with_patch" in conf:
        continue
    first = None
    for lg in ("/tmp/seed_out/%s.log" % sid,):
        if os.path.exists(lg):
            t = open(lg).read()
            i = t.find("{")
            try:
                first = json.loads(t[i:t.rindex("}") + 1])
            except Exception:
                first = None
    if first and "demo_fails_with_patch" in first:
        for k in ("demo_passes_on_clean_tree", "builds_with_patch", "stable_tests_pass_with_patch", "demo_fails_with_patch",
                  "demo_clean_output", "demo_patched_output"):
            if k in first:
                conf[k] = first[k]
        conf["first_run_detected"] = first.get("check_detected")
        m["confirmed"] = conf
        m["detected_after_strengthening"] = bool(m.get("detected_by_check")) and not first.get("check_detected")
        json.dump(m, open(mp, "w"), indent=1)
        print("merged", sid, "first_run_detected=%s now=%s" % (first.get("check_detected"), m.get("detected_by_check")))
    else:
        print("NO FIRST RUN for", sid)
