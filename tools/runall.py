#!/usr/bin/env python3
"""tools/runall.py [--tier quick|thorough] [--jobs N] [ids...]  - run the registered checks, print exit code and wall time of each."""
import argparse, json, os, subprocess, sys, time
from concurrent.futures import ThreadPoolExecutor
VERIF = os.path.dirname(os.path.dirname(os.path.abspath(__file__)))
ap = argparse.ArgumentParser()
ap.add_argument("--tier", default="quick")
ap.add_argument("--jobs", type=int, default=1)
ap.add_argument("ids", nargs="*")
a = ap.parse_args()
man = json.load(open(os.path.join(VERIF, "MANIFEST.json")))
ids = a.ids or sorted(c["property_id"] if "property_id" in c else c["id"] for c in man["checks"])
os.makedirs(os.path.join(VERIF, "work", "runall"), exist_ok=True)

def one(pid):
    t0 = time.time()
    log = os.path.join(VERIF, "work", "runall", "%s.%s.log" % (pid, a.tier))
    with open(log, "w") as f:
        rc = subprocess.call([os.path.join(VERIF, "tools", "check"), pid, "--tier", a.tier], cwd=VERIF, stdout=f, stderr=subprocess.STDOUT)
    lines = [l.rstrip()[:160] for l in open(log) if l.startswith(("VIOLATION", "KNOWN-FINDING", "MODEL-FAILURE", "  key="))]
    print("%s rc=%d %.0fs %s" % (pid, rc, time.time() - t0, " | ".join(lines)), flush=True)
    return rc

with ThreadPoolExecutor(a.jobs) as ex:
    rcs = list(ex.map(one, ids))
sys.exit(max(rcs) if rcs else 0)
